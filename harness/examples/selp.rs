//! prints whether lol-html accepts each selector given on the command line (debug aid)
fn main() {
    for s in std::env::args().skip(1) {
        println!("{s:?} => {:?}", s.parse::<lol_html::Selector>().map(|_| "ok"));
    }
}
