//! prints html5ever's token stream and the probe context for the given input (debug aid)
fn main() {
    let a: Vec<String> = std::env::args().collect();
    let input = &a[1];
    for t in vharness::oracle::html5ever_tokens(input) {
        println!("{t:?}");
    }
    println!("probe after whole input: {:?}", vharness::oracle::probe_context(input));
    println!("syntactic guard context: {}", vharness::props::c03::syntactic_guard_context(input));
}
