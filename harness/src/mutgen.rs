//! Generation of mutating op scripts addressed by token offset (so a script means the same
//! thing under every write schedule). Inserted strings carry unique position ids ("@@").

use crate::engine::{Config, Content, Op, Rec, RunResult, ScriptEntry, Sub};
use crate::rng::Rng;

pub const NASTY: &[&str] = &["<", ">", "&", "\"", "'", "<b>", "</p>", "<!--", "-->", "&amp;", "é", "中", "😀", " ", "\n", "=", "/", "x"];

pub fn content(rng: &mut Rng) -> Content {
    let html = rng.bool();
    let mut s = String::from("\u{27e6}@@");
    s.push((b'a' + rng.below(26) as u8) as char);
    if rng.chance(1, 3) {
        s.push_str(*rng.pick(NASTY));
    }
    s.push('\u{27e7}');
    Content { s, html, streaming: rng.chance(1, 5) }
}

const ATTR_NAMES: &[&str] = &["a", "A", "class", "id", "data-x", "zz", "new", "é", "a b", "", "x=y", "x>"];
const TAG_NAMES: &[&str] = &["q", "Q", "div", "x-y", "a1", "", "1a", "a b", "a>", "é", "h\u{e9}"];

pub fn el_op(rng: &mut Rng) -> Op {
    match rng.below(20) {
        0 | 1 => Op::Before(content(rng)),
        2 | 3 => Op::After(content(rng)),
        4 | 5 => Op::Prepend(content(rng)),
        6 | 7 => Op::Append(content(rng)),
        8 => Op::SetInner(content(rng)),
        9 => Op::Replace(content(rng)),
        10 => Op::Remove,
        11 => Op::RemoveKeep,
        12 | 13 => Op::SetAttr((*rng.pick(ATTR_NAMES)).to_string(), format!("v{}{}", rng.below(10), rng.pick(NASTY))),
        14 => Op::RemoveAttr((*rng.pick(ATTR_NAMES)).to_string()),
        15 => Op::SetTagName((*rng.pick(TAG_NAMES)).to_string()),
        16 => Op::StBefore(content(rng)),
        17 => Op::StAfter(content(rng)),
        18 => match rng.below(3) {
            0 => Op::StReplace(content(rng)),
            1 => Op::StRemove,
            _ => Op::StAfter(content(rng)),
        },
        _ => {
            if rng.chance(1, 8) {
                Op::ClearEndTagHandlers
            } else {
                Op::OnEndTag((0..rng.range(0, 2)).map(|_| end_tag_op(rng)).collect())
            }
        }
    }
}

/// what an end-tag handler may do: a token op or a rename of the end tag only
pub fn end_tag_op(rng: &mut Rng) -> Op {
    if rng.chance(1, 4) {
        Op::SetTagName((*rng.pick(&["q", "Q", "x-y", "ab1", "renamed"])).to_string())
    } else {
        token_op(rng)
    }
}

/// Before / After / Replace / Remove
pub fn token_op(rng: &mut Rng) -> Op {
    match rng.below(7) {
        0 | 1 => Op::Before(content(rng)),
        2 | 3 => Op::After(content(rng)),
        4 => Op::Replace(content(rng)),
        5 => Op::Remove,
        _ => Op::Before(content(rng)),
    }
}

pub fn comment_op(rng: &mut Rng) -> Op {
    if rng.chance(1, 5) {
        Op::SetText(format!("t{}{}", rng.below(10), rng.pick(&["", "-", "--", "->", "<!--", "x", "é", ">"])))
    } else {
        token_op(rng)
    }
}

/// Adds script entries for a random subset of the events seen in a dry run.
pub fn script_from_dry_run(rng: &mut Rng, cfg: &mut Config, dry: &RunResult, density: usize) {
    let mut node_open: std::collections::BTreeSet<usize> = Default::default();
    for rec in &dry.log {
        match rec {
            Rec::El(e) => {
                if rng.below(density) == 0 {
                    let n = rng.range(1, 3);
                    cfg.script.push(ScriptEntry { hid: e.hid, sub: Sub::El, offset: e.start, ops: (0..n).map(|_| el_op(rng)).collect() });
                }
            }
            Rec::Comment { hid, start, .. } => {
                if rng.below(density) == 0 {
                    let n = rng.range(1, 2);
                    cfg.script.push(ScriptEntry { hid: *hid, sub: Sub::Comment, offset: *start, ops: (0..n).map(|_| comment_op(rng)).collect() });
                }
            }
            Rec::Text { hid, start, last, .. } => {
                let first = !node_open.contains(hid);
                if *last {
                    node_open.remove(hid);
                } else {
                    node_open.insert(*hid);
                }
                if first && rng.below(density) == 0 {
                    let n = rng.range(1, 2);
                    cfg.script.push(ScriptEntry { hid: *hid, sub: Sub::Text, offset: *start, ops: (0..n).map(|_| token_op(rng)).collect() });
                }
            }
            Rec::Doctype { hid, start, .. } => {
                if rng.below(density * 2) == 0 {
                    cfg.script.push(ScriptEntry { hid: *hid, sub: Sub::Doctype, offset: *start, ops: vec![Op::Remove] });
                }
            }
            Rec::DocEnd { hid, .. } => {
                if rng.bool() {
                    cfg.script.push(ScriptEntry { hid: *hid, sub: Sub::End, offset: 0, ops: vec![Op::Append(content(rng))] });
                }
            }
            _ => {}
        }
    }
}
