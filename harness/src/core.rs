//! Runner framework: shards, statistics, violations, known findings, evidence, replay files.

use crate::rng::Rng;
use serde_json::{json, Value};
use std::collections::{BTreeMap, HashSet};
use std::sync::atomic::{AtomicBool, Ordering};
use std::sync::Mutex;
use std::time::{Duration, Instant};

#[derive(Clone, Copy, PartialEq, Eq, Debug)]
pub enum Tier {
    Quick,
    Thorough,
}

impl Tier {
    pub fn name(self) -> &'static str {
        match self {
            Tier::Quick => "quick",
            Tier::Thorough => "thorough",
        }
    }
    pub fn pick<T>(self, q: T, t: T) -> T {
        match self {
            Tier::Quick => q,
            Tier::Thorough => t,
        }
    }
}

#[derive(Clone, Debug)]
pub struct Violation {
    /// exact signature used to match known findings
    pub key: String,
    pub msg: String,
    /// replayable case description
    pub case: Value,
}

#[derive(Default)]
pub struct Stats {
    pub evaluations: u64,
    pub distinct: HashSet<u64>,
    pub counters: BTreeMap<String, u64>,
    pub samples: Vec<Value>,
    pub inconclusive: Vec<String>,
}

impl Stats {
    pub fn merge(&mut self, o: Stats) {
        self.evaluations += o.evaluations;
        self.distinct.extend(o.distinct);
        for (k, v) in o.counters {
            *self.counters.entry(k).or_insert(0) += v;
        }
        for s in o.samples {
            if self.samples.len() < 8 {
                self.samples.push(s);
            }
        }
        self.inconclusive.extend(o.inconclusive);
    }
}

pub struct Shared {
    pub stop: AtomicBool,
    pub violations: Mutex<Vec<Violation>>,
    pub known_hits: Mutex<BTreeMap<String, (String, u64)>>,
    pub known: Vec<KnownFinding>,
    pub deadline: Instant,
    pub timed_out: AtomicBool,
}

#[derive(Clone, Debug)]
pub struct KnownFinding {
    pub property: String,
    pub key: String,
    pub status: String,
    pub what: String,
}

pub struct Ctx<'a> {
    pub id: &'static str,
    pub tier: Tier,
    pub seed: u64,
    pub shard: usize,
    pub nshards: usize,
    pub rng: Rng,
    pub stats: Stats,
    pub shared: &'a Shared,
    /// multiplier for workload sizes (VERIF_SCALE), default 1.0
    pub scale: f64,
    /// which build flavour this binary is (dbg / rel / asan / tsan / miri / valgrind)
    pub flavour: String,
}

impl<'a> Ctx<'a> {
    /// number of cases this shard should run for a whole-run budget of `quick`/`thorough`
    pub fn budget(&self, quick: u64, thorough: u64) -> u64 {
        let total = self.tier.pick(quick, thorough) as f64 * self.scale;
        ((total / self.nshards as f64).ceil() as u64).max(1)
    }
    /// true when the run must stop (violation found elsewhere, or the watchdog fired)
    pub fn should_stop(&self) -> bool {
        if self.shared.stop.load(Ordering::Relaxed) {
            return true;
        }
        if Instant::now() >= self.shared.deadline {
            self.shared.timed_out.store(true, Ordering::Relaxed);
            return true;
        }
        false
    }
    #[inline]
    pub fn eval(&mut self) {
        self.stats.evaluations += 1;
    }
    #[inline]
    pub fn evals(&mut self, n: u64) {
        self.stats.evaluations += n;
    }
    #[inline]
    pub fn nontrivial(&mut self, h: u64) {
        // counted conservatively: the per-shard set stops growing at 2M entries
        if self.stats.distinct.len() < 2_000_000 {
            self.stats.distinct.insert(h);
        }
    }
    #[inline]
    pub fn count(&mut self, k: &str) {
        self.add(k, 1);
    }
    pub fn add(&mut self, k: &str, n: u64) {
        if let Some(v) = self.stats.counters.get_mut(k) {
            *v += n;
        } else {
            self.stats.counters.insert(k.to_string(), n);
        }
    }
    pub fn sample(&mut self, f: impl FnOnce() -> Value) {
        if self.stats.samples.len() < 3 {
            self.stats.samples.push(f());
        }
    }
    pub fn inconclusive(&mut self, s: String) {
        self.stats.inconclusive.push(s);
    }
    pub fn is_known(&self, key: &str) -> bool {
        self.shared.known.iter().any(|k| k.property == self.id && k.key == key && k.status == "known")
    }
    /// report a violation; returns true if it is a *known finding* (the run continues)
    pub fn violation(&mut self, v: Violation) -> bool {
        if let Some(k) = self
            .shared
            .known
            .iter()
            .find(|k| k.property == self.id && k.key == v.key && k.status == "known")
        {
            let mut h = self.shared.known_hits.lock().unwrap();
            let e = h.entry(k.key.clone()).or_insert_with(|| (k.what.clone(), 0));
            e.1 += 1;
            self.count("known_finding_hits");
            return true;
        }
        let mut vs = self.shared.violations.lock().unwrap();
        if vs.len() < 16 {
            vs.push(v);
        }
        self.shared.stop.store(true, Ordering::Relaxed);
        false
    }
}

pub trait Prop: Sync {
    fn id(&self) -> &'static str;
    fn level(&self) -> &'static str {
        "exploration"
    }
    fn rule(&self) -> String;
    fn assumptions(&self) -> Vec<String> {
        vec![]
    }
    /// run one shard of the workload
    fn run_shard(&self, ctx: &mut Ctx<'_>);
    /// re-run one recorded case; returns the violations it still produces
    fn replay(&self, case: &Value) -> Result<Vec<Violation>, String>;
    /// wall-clock watchdog (seconds) per tier; firing is *inconclusive*, not a violation
    fn watchdog_s(&self, tier: Tier) -> u64 {
        tier.pick(600, 3600)
    }
    /// minimum distinct non-trivial cases a run must observe to be allowed to say "held"
    fn min_nontrivial(&self, tier: Tier) -> u64 {
        tier.pick(50, 200)
    }
    /// whether the property wants to run in-process shards (false: it manages child processes itself)
    fn shards(&self) -> usize {
        16
    }
    /// true if exhaustively enumerated a finite space
    fn exhaustive(&self) -> bool {
        false
    }
}

pub fn load_known(path: &str) -> Vec<KnownFinding> {
    let Ok(s) = std::fs::read_to_string(path) else {
        return vec![];
    };
    let v: Value = serde_json::from_str(&s).expect("known_findings.json is not valid JSON");
    let mut out = vec![];
    for e in v["findings"].as_array().cloned().unwrap_or_default() {
        out.push(KnownFinding {
            property: e["property"].as_str().unwrap_or("").to_string(),
            key: e["key"].as_str().unwrap_or("").to_string(),
            status: e["status"].as_str().unwrap_or("").to_string(),
            what: e["what"].as_str().unwrap_or("").to_string(),
        });
    }
    out
}

pub struct RunOpts {
    pub tier: Tier,
    pub seed: u64,
    pub scale: f64,
    pub flavour: String,
    pub verif_dir: String,
    /// where to write the evidence (part) file
    pub evidence_path: String,
    pub nshards: Option<usize>,
    /// false for a part of a multi-flavour run: ./check enforces the minimum on the merged evidence
    pub enforce_min: bool,
}

/// Runs a property; returns the process exit code.
pub fn run_prop(p: &dyn Prop, o: &RunOpts) -> i32 {
    let t0 = Instant::now();
    let known = load_known(&format!("{}/known_findings.json", o.verif_dir));
    let shared = Shared {
        stop: AtomicBool::new(false),
        violations: Mutex::new(vec![]),
        known_hits: Mutex::new(BTreeMap::new()),
        known,
        deadline: t0 + Duration::from_secs(p.watchdog_s(o.tier)),
        timed_out: AtomicBool::new(false),
    };
    let nshards = o.nshards.unwrap_or_else(|| p.shards());
    let mut total = Stats::default();
    let mut harness_panics: Vec<String> = vec![];
    std::thread::scope(|sc| {
        let mut hs = vec![];
        for shard in 0..nshards {
            let shared = &shared;
            let flavour = o.flavour.clone();
            let h = std::thread::Builder::new()
                .stack_size(64 << 20)
                .spawn_scoped(sc, move || {
                    let mut ctx = Ctx {
                        id: p.id(),
                        tier: o.tier,
                        seed: o.seed,
                        shard,
                        nshards,
                        rng: Rng::derive(o.seed, p.id(), shard as u64),
                        stats: Stats::default(),
                        shared,
                        scale: o.scale,
                        flavour,
                    };
                    let r = std::panic::catch_unwind(std::panic::AssertUnwindSafe(|| p.run_shard(&mut ctx)));
                    (ctx.stats, r.err().map(|e| crate::engine::panic_msg(&e)))
                })
                .unwrap();
            hs.push(h);
        }
        for h in hs {
            match h.join() {
                Ok((st, perr)) => {
                    total.merge(st);
                    if let Some(m) = perr {
                        harness_panics.push(m);
                    }
                }
                Err(_) => harness_panics.push("shard thread died".into()),
            }
        }
    });
    let wall = t0.elapsed().as_secs_f64();
    let violations = shared.violations.lock().unwrap().clone();
    let known_hits = shared.known_hits.lock().unwrap().clone();
    let timed_out = shared.timed_out.load(Ordering::Relaxed);

    let mut inconclusive = total.inconclusive.clone();
    if timed_out {
        inconclusive.push(format!("watchdog fired after {}s: workload cut short", p.watchdog_s(o.tier)));
    }
    let distinct = total.distinct.len() as u64;
    // evidence
    let mut coverage = json!({
        "evaluations": total.evaluations,
        "distinct_nontrivial": distinct,
        "rule": p.rule(),
        "samples": total.samples,
        "counters": total.counters,
        "inconclusive": inconclusive,
        "known_findings_hit": known_hits.iter().map(|(k,(w,n))| json!({"key":k,"what":w,"hits":n})).collect::<Vec<_>>(),
        "flavour": o.flavour,
        "shards": nshards,
    });
    if p.exhaustive() {
        coverage["exhaustive"] = json!(true);
    }
    let ev = json!({
        "property_id": p.id(),
        "tier": o.tier.name(),
        "seed": o.seed,
        "level": p.level(),
        "coverage": coverage,
        "assumptions": p.assumptions(),
        "wall_s": wall,
        "violations": violations.len(),
    });
    if let Some(dir) = std::path::Path::new(&o.evidence_path).parent() {
        let _ = std::fs::create_dir_all(dir);
    }
    std::fs::write(&o.evidence_path, serde_json::to_string_pretty(&ev).unwrap()).expect("cannot write evidence");

    println!(
        "[{}] flavour={} tier={} seed={} evaluations={} distinct_nontrivial={} wall={:.1}s",
        p.id(),
        o.flavour,
        o.tier.name(),
        o.seed,
        total.evaluations,
        distinct,
        wall
    );
    for (k, v) in &total.counters {
        println!("    {k} = {v}");
    }
    for (k, (what, n)) in &known_hits {
        println!("KNOWN-FINDING: property={} {} [key={} hits={}]", p.id(), what, k, n);
    }
    for m in &inconclusive {
        println!("INCONCLUSIVE property={} {}", p.id(), m);
    }
    if !violations.is_empty() {
        let dir = format!("{}/replays", o.verif_dir);
        let _ = std::fs::create_dir_all(&dir);
        for v in &violations {
            let h = crate::rng::fnv(serde_json::to_string(&v.case).unwrap().as_bytes());
            let path = format!("{}/{}-{:016x}.json", dir, p.id(), h);
            let doc = json!({"property": p.id(), "key": v.key, "msg": v.msg, "case": v.case});
            std::fs::write(&path, serde_json::to_string_pretty(&doc).unwrap()).expect("cannot write replay");
            println!("--- {} violated: key={}\n{}", p.id(), v.key, v.msg);
            println!("VIOLATION property={} replay={}", p.id(), path);
        }
        return 1;
    }
    if !harness_panics.is_empty() {
        for m in &harness_panics {
            println!("HARNESS-ERROR property={} shard panicked: {}", p.id(), m);
        }
        return 2;
    }
    if o.enforce_min && distinct < p.min_nontrivial(o.tier) && !timed_out {
        println!(
            "HARNESS-ERROR property={} observed only {} distinct non-trivial cases (< {}): refusing to report 'held'",
            p.id(),
            distinct,
            p.min_nontrivial(o.tier)
        );
        return 2;
    }
    if o.enforce_min && timed_out && distinct < 2 {
        println!("HARNESS-ERROR property={} watchdog fired before anything was observed", p.id());
        return 2;
    }
    0
}

pub fn replay_prop(p: &dyn Prop, path: &str) -> i32 {
    let s = std::fs::read_to_string(path).expect("cannot read replay file");
    let v: Value = serde_json::from_str(&s).expect("replay file is not JSON");
    let case = if v.get("case").is_some() { v["case"].clone() } else { v };
    match p.replay(&case) {
        Ok(vs) if vs.is_empty() => {
            println!("[{}] replay {}: no violation reproduced", p.id(), path);
            0
        }
        Ok(vs) => {
            for v in vs {
                println!("--- {} violated: key={}\n{}", p.id(), v.key, v.msg);
                println!("VIOLATION property={} replay={}", p.id(), path);
            }
            1
        }
        Err(e) => {
            println!("HARNESS-ERROR replay failed: {e}");
            2
        }
    }
}

pub fn hex(b: &[u8]) -> String {
    let mut s = String::with_capacity(b.len() * 2);
    for x in b {
        s.push_str(&format!("{x:02x}"));
    }
    s
}

pub fn unhex(s: &str) -> Vec<u8> {
    (0..s.len() / 2).map(|i| u8::from_str_radix(&s[2 * i..2 * i + 2], 16).unwrap()).collect()
}

/// printable rendering of bytes for messages
pub fn show(b: &[u8]) -> String {
    let mut s = String::new();
    for &c in b.iter().take(400) {
        if (0x20..0x7f).contains(&c) && c != b'\\' {
            s.push(c as char);
        } else {
            s.push_str(&format!("\\x{c:02x}"));
        }
    }
    if b.len() > 400 {
        s.push_str("…");
    }
    s
}

/// Greedy shrinker for (input, cuts): removes spans of the input and cuts while `fails` stays true.
pub fn shrink_input(input: &[u8], cuts: &[usize], fails: &mut dyn FnMut(&[u8], &[usize]) -> bool) -> (Vec<u8>, Vec<usize>) {
    let mut inp = input.to_vec();
    let mut cuts = cuts.to_vec();
    let mut budget = 3000usize;
    // drop cuts
    let mut i = 0;
    while i < cuts.len() && budget > 0 {
        let mut c2 = cuts.clone();
        c2.remove(i);
        budget -= 1;
        if fails(&inp, &c2) {
            cuts = c2;
        } else {
            i += 1;
        }
    }
    // delete spans
    let mut span = (inp.len() / 2).max(1);
    while span >= 1 && budget > 0 {
        let mut pos = 0;
        while pos + span <= inp.len() && budget > 0 {
            let mut i2 = inp.clone();
            i2.drain(pos..pos + span);
            let c2: Vec<usize> = cuts
                .iter()
                .map(|&c| if c >= pos + span { c - span } else if c > pos { pos } else { c })
                .collect();
            budget -= 1;
            if fails(&i2, &c2) {
                inp = i2;
                cuts = c2;
            } else {
                pos += span;
            }
        }
        if span == 1 {
            break;
        }
        span /= 2;
    }
    (inp, cuts)
}
