//! C-API driver: interprets the same `Config` + op script as `engine`, but exclusively through the exported
//! `extern "C"` entry points of `lol_html_c_api` with `extern "C"` callbacks, and records the same log.

use crate::engine::{AttrRec, Config, Content, ElRec, ErrKind, Op, PostRead, Rec, Res, RunResult, Sub};
use libc::{c_char, c_int, c_void, size_t};
use lol_html::html_content::{Comment, Doctype, DocumentEnd, Element, EndTag, TextChunk};
use lol_html::MemorySettings;
use lolhtml::rewriter_builder::RewriterDirective;
use lolhtml::string::lol_html_str_free;
use lolhtml::*;
use std::collections::HashMap;

/// what create/use/free history to follow (all permitted by the header)
#[derive(Clone, Copy, Debug, Default, serde_derive::Serialize, serde_derive::Deserialize)]
pub struct History {
    /// free the builder right after building the rewriter (before any write)
    pub builder_freed_first: bool,
    /// free the strings returned by accessors only at the end of the run instead of immediately
    pub strings_freed_late: bool,
    /// call rewriter_free twice after end() (explicitly permitted)
    pub selectors_freed_before_rewriter: bool,
    /// do not call end(), only free
    pub no_end: bool,
    /// every element handler first passes invalid UTF-8 to each string-taking entry point: all must fail with
    /// the documented return value, set the last error and leave the element untouched
    #[serde(default)]
    pub invalid_utf8_probe: bool,
    /// failing calls made inside handlers do NOT fetch the last error: a later failure (handler Stop, memory limit)
    /// must still be explained by its own message ("returns the *last* error")
    #[serde(default)]
    pub errors_left_pending: bool,
    /// every element handler passes a streaming handler whose write_all_callback is NULL: the call must fail and the
    /// drop callback must still run exactly once
    #[serde(default)]
    pub null_streaming_probe: bool,
}

struct Shared {
    log: Vec<Rec>,
    invocations: usize,
    fail_at: Option<usize>,
    script: HashMap<(usize, Sub, usize), Vec<Op>>,
    out_len: usize,
    post_read: bool,
    probe_attrs: bool,
    late_strings: Vec<Str>,
    strings_freed_late: bool,
    /// leaked user-data boxes to free at the end
    end_ctxs: Vec<*mut EndCtx>,
    stream_drops: isize,
    stream_created: isize,
    invalid_utf8_probe: bool,
    errors_left_pending: bool,
    null_streaming_probe: bool,
    /// a handler returned LOL_HTML_STOP
    stop_returned: bool,
    /// problems found by the invalid-UTF-8 probe
    pub probe_problems: Vec<String>,
    pub probe_calls: usize,
}

struct HCtx {
    sh: *mut Shared,
    hid: usize,
    always_el: Vec<Op>,
    always_text: Vec<Op>,
    always_comment: Vec<Op>,
    always_doctype: Vec<Op>,
    always_end: Vec<Op>,
    end_tag: bool,
    /// per-handler text node tracking
    node_start: Option<usize>,
}

struct EndCtx {
    sh: *mut Shared,
    hid: usize,
    ops: Vec<Op>,
    el_start: usize,
}

struct StreamCtx {
    sh: *mut Shared,
    s: String,
    html: bool,
}

unsafe fn take_str(sh: &mut Shared, s: Str) -> Option<String> {
    // Str { data, len } is repr(C); read through the raw parts
    let (data, len): (*const c_char, size_t) = std::mem::transmute_copy(&s);
    let r = if data.is_null() { None } else { Some(String::from_utf8_lossy(std::slice::from_raw_parts(data as *const u8, len)).into_owned()) };
    if sh.strings_freed_late {
        sh.late_strings.push(s);
    } else {
        lol_html_str_free(s);
    }
    r
}

/// fetches the last error after a failed call made inside a handler - unless this history leaves such errors pending
unsafe fn fetch_err(sh: &mut Shared) -> Option<String> {
    if sh.errors_left_pending {
        return None;
    }
    take_str(sh, lolhtml::errors::lol_html_take_last_error())
}

fn tick(sh: &mut Shared) -> bool {
    sh.invocations += 1;
    let fail = sh.fail_at == Some(sh.invocations);
    if fail {
        // every caller answers a failing tick with LOL_HTML_STOP
        sh.stop_returned = true;
    }
    fail
}

fn ops_for(sh: &Shared, hid: usize, sub: Sub, off: usize, always: &[Op]) -> Vec<Op> {
    let mut v = always.to_vec();
    if let Some(o) = sh.script.get(&(hid, sub, off)) {
        v.extend(o.iter().cloned());
    }
    v
}

fn subst(c: &Content, hid: usize, sub: Sub, offset: usize) -> String {
    if c.s.contains("@@") {
        let tag = match sub {
            Sub::El => 'e',
            Sub::Text => 't',
            Sub::Comment => 'c',
            Sub::Doctype => 'd',
            Sub::End => 'z',
        };
        c.s.replace("@@", &format!("{hid}{tag}{offset}"))
    } else {
        c.s.clone()
    }
}

unsafe extern "C" fn stream_write_all(sink: &mut lolhtml::streaming::CStreamingHandlerSink<'_>, ud: *mut c_void) -> c_int {
    let c = &*(ud as *mut StreamCtx);
    let mut mid = c.s.len() / 2;
    while !c.s.is_char_boundary(mid) {
        mid += 1;
    }
    let a = &c.s[..mid];
    let b = &c.s[mid..];
    // first half through write_str, second through write_utf8_chunk
    if lolhtml::streaming::lol_html_streaming_sink_write_str(sink, a.as_ptr() as *const c_char, a.len(), c.html) != 0 {
        return 1;
    }
    // in byte pieces, cut exactly as the Rust driver cuts (engine::utf8_piece_sizes)
    let rest = b.as_bytes();
    let sizes = crate::engine::utf8_piece_sizes(&c.s);
    let (mut at, mut k) = (0usize, 0usize);
    while at < rest.len() {
        let n = sizes[k % sizes.len()].min(rest.len() - at);
        k += 1;
        if lolhtml::streaming::lol_html_streaming_sink_write_utf8_chunk(sink, rest[at..].as_ptr() as *const c_char, n, c.html) != 0 {
            return 2;
        }
        at += n;
    }
    0
}

unsafe extern "C" fn stream_drop(ud: *mut c_void) {
    let c = Box::from_raw(ud as *mut StreamCtx);
    (*c.sh).stream_drops += 1;
    drop(c);
}

unsafe fn streamer(sh: *mut Shared, s: String, html: bool) -> CStreamingHandler {
    (*sh).stream_created += 1;
    let ctx = Box::into_raw(Box::new(StreamCtx { sh, s, html }));
    CStreamingHandler { user_data: ctx as *mut c_void, write_all_callback: Some(stream_write_all), drop_callback: Some(stream_drop), reserved: std::ptr::null_mut() }
}

macro_rules! c_content_ops {
    ($sh:expr, $unit:expr, $op:expr, $hid:expr, $sub:expr, $off:expr, $before:path, $after:path, $replace:path, $remove:path, $sbefore:path, $safter:path, $sreplace:path) => {
        match $op {
            Op::Before(c) => {
                let s = subst(c, $hid, $sub, $off);
                if c.streaming {
                    let mut h = streamer($sh, s, c.html);
                    $sbefore($unit, &mut h);
                    std::mem::forget(h);
                } else {
                    $before($unit, s.as_ptr() as *const c_char, s.len(), c.html);
                }
                true
            }
            Op::After(c) => {
                let s = subst(c, $hid, $sub, $off);
                if c.streaming {
                    let mut h = streamer($sh, s, c.html);
                    $safter($unit, &mut h);
                    std::mem::forget(h);
                } else {
                    $after($unit, s.as_ptr() as *const c_char, s.len(), c.html);
                }
                true
            }
            Op::Replace(c) => {
                let s = subst(c, $hid, $sub, $off);
                if c.streaming {
                    let mut h = streamer($sh, s, c.html);
                    $sreplace($unit, &mut h);
                    std::mem::forget(h);
                } else {
                    $replace($unit, s.as_ptr() as *const c_char, s.len(), c.html);
                }
                true
            }
            Op::Remove => {
                $remove($unit);
                true
            }
            _ => false,
        }
    };
}

unsafe extern "C" fn end_tag_cb(et: *mut EndTag, ud: *mut c_void) -> RewriterDirective {
    use lolhtml::element::*;
    let c = &*(ud as *mut EndCtx);
    let sh = &mut *c.sh;
    let loc = lol_html_end_tag_source_location_bytes(et);
    let name = take_str(sh, lol_html_end_tag_name_get(et)).unwrap_or_default();
    let name_pc = take_str(sh, lol_html_end_tag_name_get_preserve_case(et)).unwrap_or_default();
    let fail = tick(sh);
    sh.log.push(Rec::EndTag { hid: c.hid, start: loc.start, end: loc.end, name, name_pc, failed: fail });
    if fail {
        return RewriterDirective::Stop;
    }
    for op in &c.ops {
        if c_content_ops!(c.sh, et, op, c.hid, Sub::End, c.el_start, lol_html_end_tag_before, lol_html_end_tag_after, lol_html_end_tag_replace, lol_html_end_tag_remove, lol_html_end_tag_streaming_before, lol_html_end_tag_streaming_after, lol_html_end_tag_streaming_replace) {
            continue;
        }
        if let Op::SetTagName(n) = op {
            lol_html_end_tag_name_set(et, n.as_ptr() as *const c_char, n.len());
        }
    }
    RewriterDirective::Continue
}

unsafe extern "C" fn element_cb(el: *mut Element, ud: *mut c_void) -> RewriterDirective {
    use lolhtml::element::*;
    let h = &mut *(ud as *mut HCtx);
    let sh = &mut *h.sh;
    let loc = lol_html_element_source_location_bytes(el);
    let (start, end) = (loc.start, loc.end);
    let fail = tick(sh);
    let ops = ops_for(sh, h.hid, Sub::El, start, &h.always_el);
    // attributes through the iterator
    let mut attrs: Vec<AttrRec> = vec![];
    let it = lol_html_attributes_iterator_get(el);
    loop {
        let a = lol_html_attributes_iterator_next(it);
        if a.is_null() {
            break;
        }
        let name = take_str(sh, lol_html_attribute_name_get(a)).unwrap_or_default();
        let name_pc = take_str(sh, lol_html_attribute_name_get_preserve_case(a)).unwrap_or_default();
        let value = take_str(sh, lol_html_attribute_value_get(a)).unwrap_or_default();
        attrs.push(AttrRec { name, name_pc, value, name_loc: None, value_loc: None });
    }
    lol_html_attributes_iterator_free(it);
    let mut probes = vec![];
    if sh.probe_attrs {
        let mut names: Vec<String> = vec![];
        for a in &attrs {
            names.push(a.name.clone());
            names.push(a.name_pc.to_ascii_uppercase());
            names.push(a.name_pc.clone());
        }
        names.push("zz-absent".into());
        for n in names {
            let g = take_str(sh, lol_html_element_get_attribute(el, n.as_ptr() as *const c_char, n.len()));
            let hh = lol_html_element_has_attribute(el, n.as_ptr() as *const c_char, n.len()) == 1;
            probes.push((n, g, hh));
        }
    }
    // user data round trip: what was set is what is read back (NULL before)
    sh.probe_calls += 1;
    let _ = lol_html_element_user_data_get(el); // another handler of the same element may have set it already
    lol_html_element_user_data_set(el, ud);
    if lol_html_element_user_data_get(el) != ud {
        sh.probe_problems.push("lol_html_element_user_data_get does not return what was set".into());
    }
    let ns = std::ffi::CStr::from_ptr(lol_html_element_namespace_uri_get(el)).to_string_lossy().into_owned();
    let mut rec = ElRec {
        hid: h.hid,
        start,
        end,
        name: take_str(sh, lol_html_element_tag_name_get(el)).unwrap_or_default(),
        name_pc: take_str(sh, lol_html_element_tag_name_get_preserve_case(el)).unwrap_or_default(),
        attrs,
        ns,
        self_closing: lol_html_element_is_self_closing(el),
        can_have_content: lol_html_element_can_have_content(el),
        removed: lol_html_element_is_removed(el),
        failed: fail,
        probes,
        post: None,
    };
    if fail {
        sh.log.push(Rec::El(Box::new(rec)));
        return RewriterDirective::Stop;
    }
    if sh.invalid_utf8_probe {
        let bad: &[u8] = b"a\xff\xfe";
        let bp = bad.as_ptr() as *const c_char;
        let ok: &[u8] = b"ok";
        let okp = ok.as_ptr() as *const c_char;
        let mut expect_err = |sh: &mut Shared, what: &str, failed: bool| {
            sh.probe_calls += 1;
            if !failed {
                sh.probe_problems.push(format!("{what} accepted invalid UTF-8"));
            }
            let e = fetch_err(sh);
            if failed && e.is_none() && !sh.errors_left_pending {
                sh.probe_problems.push(format!("{what} failed without setting the last error"));
            }
        };
        let r = lol_html_element_before(el, bp, bad.len(), true) != 0;
        expect_err(sh, "lol_html_element_before", r);
        let r = lol_html_element_append(el, bp, bad.len(), false) != 0;
        expect_err(sh, "lol_html_element_append", r);
        let r = lol_html_element_set_attribute(el, bp, bad.len(), okp, ok.len()) != 0;
        expect_err(sh, "lol_html_element_set_attribute(name)", r);
        let r = lol_html_element_set_attribute(el, okp, ok.len(), bp, bad.len()) != 0;
        expect_err(sh, "lol_html_element_set_attribute(value)", r);
        let r = lol_html_element_tag_name_set(el, bp, bad.len()) != 0;
        expect_err(sh, "lol_html_element_tag_name_set", r);
        let r = lol_html_element_has_attribute(el, bp, bad.len()) == -1;
        expect_err(sh, "lol_html_element_has_attribute", r);
        let g = lol_html_element_get_attribute(el, bp, bad.len());
        let gs = take_str(sh, g);
        expect_err(sh, "lol_html_element_get_attribute", gs.is_none());
        let r = lol_html_element_remove_attribute(el, bp, bad.len()) != 0;
        expect_err(sh, "lol_html_element_remove_attribute", r);
    }
    if sh.null_streaming_probe {
        let mut hh = streamer(h.sh, String::new(), false);
        hh.write_all_callback = None;
        let rc = lol_html_element_streaming_append(el, &mut hh);
        std::mem::forget(hh);
        if rc == 0 {
            sh.probe_problems.push("lol_html_element_streaming_append accepted a streaming handler without write_all_callback".into());
        } else {
            // (-1 without a last-error message: the header only promises "an error will be reported" for this misuse,
            // so nothing more is demanded than the return code and - through the drop balance - exactly one drop_callback)
            let _ = fetch_err(sh);
        }
        sh.probe_calls += 1;
    }
    let mut op_errors = vec![];
    if h.end_tag {
        let ctx = Box::into_raw(Box::new(EndCtx { sh: h.sh, hid: h.hid, ops: vec![], el_start: start }));
        sh.end_ctxs.push(ctx);
        if lol_html_element_add_end_tag_handler(el, end_tag_cb, ctx as *mut c_void) != 0 {
            let _ = fetch_err(sh);
        }
    }
    for op in &ops {
        if c_content_ops!(h.sh, el, op, h.hid, Sub::El, start, lol_html_element_before, lol_html_element_after, lol_html_element_replace, lol_html_element_remove, lol_html_element_streaming_before, lol_html_element_streaming_after, lol_html_element_streaming_replace) {
            continue;
        }
        match op {
            Op::Prepend(c) => {
                let s = subst(c, h.hid, Sub::El, start);
                if c.streaming {
                    let mut hh = streamer(h.sh, s, c.html);
                    lol_html_element_streaming_prepend(el, &mut hh);
                    std::mem::forget(hh);
                } else {
                    lol_html_element_prepend(el, s.as_ptr() as *const c_char, s.len(), c.html);
                }
            }
            Op::Append(c) => {
                let s = subst(c, h.hid, Sub::El, start);
                if c.streaming {
                    let mut hh = streamer(h.sh, s, c.html);
                    lol_html_element_streaming_append(el, &mut hh);
                    std::mem::forget(hh);
                } else {
                    lol_html_element_append(el, s.as_ptr() as *const c_char, s.len(), c.html);
                }
            }
            Op::SetInner(c) => {
                let s = subst(c, h.hid, Sub::El, start);
                if c.streaming {
                    let mut hh = streamer(h.sh, s, c.html);
                    lol_html_element_streaming_set_inner_content(el, &mut hh);
                    std::mem::forget(hh);
                } else {
                    lol_html_element_set_inner_content(el, s.as_ptr() as *const c_char, s.len(), c.html);
                }
            }
            Op::RemoveKeep => lol_html_element_remove_and_keep_content(el),
            Op::SetAttr(n, v) => {
                if lol_html_element_set_attribute(el, n.as_ptr() as *const c_char, n.len(), v.as_ptr() as *const c_char, v.len()) != 0 {
                    let e = fetch_err(sh).unwrap_or_default();
                    op_errors.push(format!("SetAttr:{e}"));
                }
            }
            Op::RemoveAttr(n) => {
                lol_html_element_remove_attribute(el, n.as_ptr() as *const c_char, n.len());
            }
            Op::SetTagName(n) => {
                if lol_html_element_tag_name_set(el, n.as_ptr() as *const c_char, n.len()) != 0 {
                    let e = fetch_err(sh).unwrap_or_default();
                    op_errors.push(format!("SetTagName:{e}"));
                }
            }
            Op::OnEndTag(inner) => {
                let ctx = Box::into_raw(Box::new(EndCtx { sh: h.sh, hid: h.hid, ops: inner.clone(), el_start: start }));
                sh.end_ctxs.push(ctx);
                if lol_html_element_add_end_tag_handler(el, end_tag_cb, ctx as *mut c_void) != 0 {
                    let _ = fetch_err(sh);
                    op_errors.push("OnEndTag:no-content".into());
                }
            }
            Op::ClearEndTagHandlers => lol_html_element_clear_end_tag_handlers(el),
            // start_tag() is not exposed in the C API
            _ => {}
        }
    }
    if sh.post_read {
        let mut pattrs = vec![];
        let it = lol_html_attributes_iterator_get(el);
        loop {
            let a = lol_html_attributes_iterator_next(it);
            if a.is_null() {
                break;
            }
            let n = take_str(sh, lol_html_attribute_name_get(a)).unwrap_or_default();
            let v = take_str(sh, lol_html_attribute_value_get(a)).unwrap_or_default();
            pattrs.push((n, v));
        }
        lol_html_attributes_iterator_free(it);
        rec.post = Some(PostRead {
            name: take_str(sh, lol_html_element_tag_name_get(el)).unwrap_or_default(),
            name_pc: take_str(sh, lol_html_element_tag_name_get_preserve_case(el)).unwrap_or_default(),
            attrs: pattrs,
            removed: lol_html_element_is_removed(el),
            op_errors: op_errors.iter().map(|e| e.split(':').next().unwrap_or("").to_string()).collect(),
        });
    }
    sh.log.push(Rec::El(Box::new(rec)));
    RewriterDirective::Continue
}

unsafe extern "C" fn text_cb(t: *mut TextChunk, ud: *mut c_void) -> RewriterDirective {
    use lolhtml::text_chunk::*;
    let h = &mut *(ud as *mut HCtx);
    let sh = &mut *h.sh;
    let loc = lol_html_text_chunk_source_location_bytes(t);
    let content = lol_html_text_chunk_content_get(t);
    let (data, len): (*const c_char, size_t) = std::mem::transmute_copy(&content);
    let text = String::from_utf8_lossy(std::slice::from_raw_parts(data as *const u8, len)).into_owned();
    let last = lol_html_text_chunk_is_last_in_text_node(t);
    lol_html_text_chunk_user_data_set(t, ud);
    let _ = lol_html_text_chunk_is_removed(t);
    if lol_html_text_chunk_user_data_get(t) != ud {
        (*h.sh).probe_problems.push("text chunk user data / is_removed round trip failed".into());
    }
    let first = h.node_start.is_none();
    let ns = *h.node_start.get_or_insert(loc.start);
    if last {
        h.node_start = None;
    }
    let fail = tick(sh);
    sh.log.push(Rec::Text { hid: h.hid, start: loc.start, end: loc.end, text, tt: String::new(), last, failed: fail });
    if fail {
        return RewriterDirective::Stop;
    }
    let ops = ops_for(sh, h.hid, Sub::Text, ns, &h.always_text);
    for op in &ops {
        match op {
            Op::Before(_) if !first => {}
            Op::After(_) if !last => {}
            Op::Replace(_) if !first => lol_html_text_chunk_remove(t),
            _ => {
                let _ = c_content_ops!(h.sh, t, op, h.hid, Sub::Text, ns, lol_html_text_chunk_before, lol_html_text_chunk_after, lol_html_text_chunk_replace, lol_html_text_chunk_remove, lol_html_text_chunk_streaming_before, lol_html_text_chunk_streaming_after, lol_html_text_chunk_streaming_replace);
            }
        }
    }
    RewriterDirective::Continue
}

unsafe extern "C" fn comment_cb(c: *mut Comment, ud: *mut c_void) -> RewriterDirective {
    use lolhtml::comment::*;
    let h = &mut *(ud as *mut HCtx);
    let sh = &mut *h.sh;
    let loc = lol_html_comment_source_location_bytes(c);
    let text = take_str(sh, lol_html_comment_text_get(c)).unwrap_or_default();
    lol_html_comment_user_data_set(c, ud);
    let _ = lol_html_comment_is_removed(c);
    if lol_html_comment_user_data_get(c) != ud {
        sh.probe_problems.push("comment user data / is_removed round trip failed".into());
    }
    let fail = tick(sh);
    sh.log.push(Rec::Comment { hid: h.hid, start: loc.start, end: loc.end, text, failed: fail });
    if fail {
        return RewriterDirective::Stop;
    }
    let ops = ops_for(sh, h.hid, Sub::Comment, loc.start, &h.always_comment);
    for op in &ops {
        if c_content_ops!(h.sh, c, op, h.hid, Sub::Comment, loc.start, lol_html_comment_before, lol_html_comment_after, lol_html_comment_replace, lol_html_comment_remove, lol_html_comment_streaming_before, lol_html_comment_streaming_after, lol_html_comment_streaming_replace) {
            continue;
        }
        if let Op::SetText(s) = op {
            if lol_html_comment_text_set(c, s.as_ptr() as *const c_char, s.len()) != 0 {
                let _ = fetch_err(sh);
            }
        }
    }
    RewriterDirective::Continue
}

unsafe extern "C" fn doctype_cb(d: *mut Doctype, ud: *mut c_void) -> RewriterDirective {
    use lolhtml::doctype::*;
    let h = &mut *(ud as *mut HCtx);
    let sh = &mut *h.sh;
    let loc = lol_html_doctype_source_location_bytes(d);
    let name = take_str(sh, lol_html_doctype_name_get(d));
    let public = take_str(sh, lol_html_doctype_public_id_get(d));
    let system = take_str(sh, lol_html_doctype_system_id_get(d));
    lol_html_doctype_user_data_set(d, ud);
    let _ = lol_html_doctype_is_removed(d);
    if lol_html_doctype_user_data_get(d) != ud {
        sh.probe_problems.push("doctype user data / is_removed round trip failed".into());
    }
    let fail = tick(sh);
    sh.log.push(Rec::Doctype { hid: h.hid, start: loc.start, end: loc.end, name, public, system, failed: fail });
    if fail {
        return RewriterDirective::Stop;
    }
    let ops = ops_for(sh, h.hid, Sub::Doctype, loc.start, &h.always_doctype);
    if ops.iter().any(|o| matches!(o, Op::Remove)) {
        lol_html_doctype_remove(d);
    }
    RewriterDirective::Continue
}

unsafe extern "C" fn end_cb(e: *mut DocumentEnd, ud: *mut c_void) -> RewriterDirective {
    let h = &mut *(ud as *mut HCtx);
    let sh = &mut *h.sh;
    let fail = tick(sh);
    sh.log.push(Rec::DocEnd { hid: h.hid, failed: fail });
    if fail {
        return RewriterDirective::Stop;
    }
    let ops = ops_for(sh, h.hid, Sub::End, 0, &h.always_end);
    for op in &ops {
        if let Op::Append(c) = op {
            let s = subst(c, h.hid, Sub::End, 0);
            lolhtml::document_end::lol_html_doc_end_append(e, s.as_ptr() as *const c_char, s.len(), c.html);
        }
    }
    RewriterDirective::Continue
}

unsafe extern "C" fn sink_cb(chunk: *const c_char, len: size_t, ud: *mut c_void) {
    let sh = &mut *(ud as *mut Shared);
    let b = std::slice::from_raw_parts(chunk as *const u8, len);
    sh.out_len += len;
    sh.log.push(Rec::Chunk(b.to_vec()));
}

thread_local! {
    static CALIBRATING: std::cell::Cell<bool> = const { std::cell::Cell::new(false) };
}

/// the message the C API reports when a handler returns LOL_HTML_STOP, obtained once per process from a run in which
/// nothing else failed (not hard-coded: rewording it is not a defect)
fn stop_message() -> &'static str {
    static MSG: std::sync::OnceLock<String> = std::sync::OnceLock::new();
    MSG.get_or_init(|| {
        CALIBRATING.with(|c| c.set(true));
        let cfg = Config { el: vec![crate::engine::ElH { selector: "*".into(), element: true, ..Default::default() }], fail_at: Some(1), ..Default::default() };
        let r = run(&cfg, b"<a>", &[], History::default());
        CALIBRATING.with(|c| c.set(false));
        match r {
            Ok(c) => c.result.log.iter().find_map(|r| if let Rec::Ret { res: Res::Err(ErrKind::Handler(m)), .. } = r { Some(m.clone()) } else { None }).unwrap_or_default(),
            Err(_) => String::new(),
        }
    })
}

/// error kinds are recognised by comparing with what the Rust API itself prints for them (obtained at run time, not
/// hard-coded: rewording a message is not a defect)
fn classify(msg: &str) -> ErrKind {
    static PARTS: std::sync::OnceLock<(String, String, String)> = std::sync::OnceLock::new();
    let (mem, amb_head, amb_tail) = PARTS.get_or_init(|| {
        let mem = lol_html::errors::RewritingError::MemoryLimitExceeded(lol_html::errors::MemoryLimitExceededError).to_string();
        let amb = match lol_html::rewrite_str("<select><xmp>", lol_html::RewriteStrSettings::new().with_strict(true)) {
            Err(e @ lol_html::errors::RewritingError::ParsingAmbiguity(_)) => e.to_string(),
            _ => String::new(),
        };
        let (h, t) = match amb.find("xmp") {
            Some(i) => (amb[..i].to_string(), amb[i + 3..].to_string()),
            None => ("\u{0}".to_string(), "\u{0}".to_string()),
        };
        (mem, h, t)
    });
    if msg == mem {
        ErrKind::Mem
    } else if msg.len() >= amb_head.len() + amb_tail.len() && msg.starts_with(amb_head.as_str()) && msg.ends_with(amb_tail.as_str()) {
        ErrKind::Ambiguity
    } else {
        ErrKind::Handler(msg.to_string())
    }
}

#[derive(Debug)]
pub enum CSetupError {
    Selector(String),
    Build(String),
    NoLastError(String),
}

pub struct CRun {
    pub result: RunResult,
    pub probe_problems: Vec<String>,
    pub probe_calls: usize,
    /// streaming handlers created vs dropped (must balance after everything is freed)
    pub stream_balance: isize,
}

/// Drives a rewrite through the C entry points. The caller guarantees that the config uses only features the C API
/// exposes (no bail-out handlers, no graceful content-handler flag, no start_tag() ops, no meta charset).
pub fn run(cfg: &Config, input: &[u8], cuts: &[usize], hist: History) -> Result<CRun, CSetupError> {
    unsafe {
        use lolhtml::rewriter::*;
        use lolhtml::rewriter_builder::*;
        use lolhtml::selector::*;
        let mut script = HashMap::new();
        for e in &cfg.script {
            script.entry((e.hid, e.sub, e.offset)).or_insert_with(Vec::new).extend(e.ops.iter().cloned());
        }
        let sh = Box::into_raw(Box::new(Shared {
            log: vec![],
            invocations: 0,
            fail_at: cfg.fail_at,
            script,
            out_len: 0,
            post_read: cfg.post_read,
            probe_attrs: cfg.probe_attrs,
            late_strings: vec![],
            strings_freed_late: hist.strings_freed_late,
            end_ctxs: vec![],
            stream_drops: 0,
            stream_created: 0,
            invalid_utf8_probe: hist.invalid_utf8_probe,
            errors_left_pending: hist.errors_left_pending,
            null_streaming_probe: hist.null_streaming_probe,
            stop_returned: false,
            probe_problems: vec![],
            probe_calls: 0,
        }));
        let builder = lol_html_rewriter_builder_new();
        let mut selectors: Vec<*mut lol_html::Selector> = vec![];
        let mut hctxs: Vec<*mut HCtx> = vec![];
        let cleanup = |builder: *mut HtmlRewriterBuilder, selectors: &Vec<*mut lol_html::Selector>, hctxs: &Vec<*mut HCtx>, sh: *mut Shared| {
            lol_html_rewriter_builder_free(builder);
            for s in selectors {
                lol_html_selector_free(*s);
            }
            for h in hctxs {
                drop(Box::from_raw(*h));
            }
            let mut shb = Box::from_raw(sh);
            for s in shb.late_strings.drain(..) {
                lol_html_str_free(s);
            }
            for c in shb.end_ctxs.drain(..) {
                drop(Box::from_raw(c));
            }
            drop(shb);
        };
        for (hid, e) in cfg.el.iter().enumerate() {
            let sel = lol_html_selector_parse(e.selector.as_ptr() as *const c_char, e.selector.len());
            if sel.is_null() {
                let msg = take_str(&mut *sh, lolhtml::errors::lol_html_take_last_error());
                cleanup(builder, &selectors, &hctxs, sh);
                return match msg {
                    Some(m) => Err(CSetupError::Selector(m)),
                    None => Err(CSetupError::NoLastError("selector_parse returned NULL without a last error".into())),
                };
            }
            selectors.push(sel);
            let h = Box::into_raw(Box::new(HCtx { sh, hid, always_el: e.always_el.clone(), always_text: e.always_text.clone(), always_comment: e.always_comment.clone(), always_doctype: vec![], always_end: vec![], end_tag: e.end_tag, node_start: None }));
            hctxs.push(h);
            let ud = h as *mut c_void;
            lol_html_rewriter_builder_add_element_content_handlers(
                builder,
                sel,
                if e.element || e.end_tag { Some(element_cb) } else { None },
                ud,
                if e.comments { Some(comment_cb) } else { None },
                ud,
                if e.text { Some(text_cb) } else { None },
                ud,
            );
        }
        let base = cfg.el.len();
        for (i, d) in cfg.doc.iter().enumerate() {
            let h = Box::into_raw(Box::new(HCtx { sh, hid: base + i, always_el: vec![], always_text: d.always_text.clone(), always_comment: d.always_comment.clone(), always_doctype: d.always_doctype.clone(), always_end: d.always_end.clone(), end_tag: false, node_start: None }));
            hctxs.push(h);
            let ud = h as *mut c_void;
            lol_html_rewriter_builder_add_document_content_handlers(
                builder,
                if d.doctype { Some(doctype_cb) } else { None },
                ud,
                if d.comments { Some(comment_cb) } else { None },
                ud,
                if d.text { Some(text_cb) } else { None },
                ud,
                if d.end { Some(end_cb) } else { None },
                ud,
            );
        }
        let mut mem = MemorySettings::new().with_graceful_bail_out_on_memory_limit_exceeded(cfg.graceful_mem);
        if let Some(m) = cfg.max_mem {
            mem = mem.with_max_allowed_memory_usage(m);
        }
        if let Some(p) = cfg.prealloc {
            mem = mem.with_preallocated_parsing_buffer_size(p);
        }
        let enc = cfg.encoding.clone();
        let rw = if cfg.esi {
            unstable_lol_html_rewriter_build_with_esi_tags(builder, enc.as_ptr() as *const c_char, enc.len(), mem, sink_cb, sh as *mut c_void, cfg.strict)
        } else {
            lol_html_rewriter_build(builder, enc.as_ptr() as *const c_char, enc.len(), mem, sink_cb, sh as *mut c_void, cfg.strict)
        };
        if rw.is_null() {
            let msg = take_str(&mut *sh, lolhtml::errors::lol_html_take_last_error());
            cleanup(builder, &selectors, &hctxs, sh);
            return match msg {
                Some(m) => Err(CSetupError::Build(m)),
                None => Err(CSetupError::NoLastError("rewriter_build returned NULL without a last error".into())),
            };
        }
        let mut builder_alive = true;
        if hist.builder_freed_first {
            lol_html_rewriter_builder_free(builder);
            builder_alive = false;
        }
        // drive
        let mut pos = 0usize;
        let mut failed = false;
        let mut bounds: Vec<usize> = cuts.iter().copied().filter(|&c| c <= input.len()).collect();
        bounds.push(input.len());
        for &b in &bounds {
            let b = b.max(pos);
            let chunk = &input[pos..b];
            (*sh).log.push(Rec::CallWrite(chunk.len()));
            // a zero-length write still needs a non-NULL pointer per the header
            let rc = lol_html_rewriter_write(rw, chunk.as_ptr() as *const c_char, chunk.len());
            let res = if rc == 0 {
                Res::Ok
            } else {
                match take_str(&mut *sh, lolhtml::errors::lol_html_take_last_error()) {
                    Some(m) => {
                        if (*sh).stop_returned && !CALIBRATING.with(|c| c.get()) && m != stop_message() {
                            (*sh).probe_problems.push(format!("a handler returned LOL_HTML_STOP but the last error of the failed call is {m:?} (an older, never fetched message?)"));
                        }
                        Res::Err(classify(&m))
                    }
                    None => Res::Err(ErrKind::Handler("NO LAST ERROR".into())),
                }
            };
            let out_len = (*sh).out_len;
            (*sh).log.push(Rec::Ret { res: res.clone(), out_len, mem: 0 });
            pos = b;
            if res != Res::Ok {
                failed = true;
                break;
            }
        }
        if !failed && !hist.no_end {
            (*sh).log.push(Rec::CallEnd);
            let rc = lol_html_rewriter_end(rw);
            let res = if rc == 0 {
                Res::Ok
            } else {
                match take_str(&mut *sh, lolhtml::errors::lol_html_take_last_error()) {
                    Some(m) => {
                        if (*sh).stop_returned && !CALIBRATING.with(|c| c.get()) && m != stop_message() {
                            (*sh).probe_problems.push(format!("a handler returned LOL_HTML_STOP but the last error of the failed call is {m:?} (an older, never fetched message?)"));
                        }
                        Res::Err(classify(&m))
                    }
                    None => Res::Err(ErrKind::Handler("NO LAST ERROR".into())),
                }
            };
            let out_len = (*sh).out_len;
            (*sh).log.push(Rec::Ret { res, out_len, mem: 0 });
        }
        // a stale last error must not exist after successful calls
        let stale = take_str(&mut *sh, lolhtml::errors::lol_html_take_last_error());
        // (histories that deliberately leave handler-level errors pending may legitimately end with one)
        let stale = if hist.errors_left_pending { None } else { stale };
        if hist.selectors_freed_before_rewriter {
            // selectors are borrowed by the builder only; the header allows freeing them once the rewriter is built
            if builder_alive {
                lol_html_rewriter_builder_free(builder);
                builder_alive = false;
            }
            for s in selectors.drain(..) {
                lol_html_selector_free(s);
            }
        }
        lol_html_rewriter_free(rw);
        if builder_alive {
            lol_html_rewriter_builder_free(builder);
        }
        for s in selectors.drain(..) {
            lol_html_selector_free(s);
        }
        for h in hctxs {
            drop(Box::from_raw(h));
        }
        let mut shb = Box::from_raw(sh);
        for s in shb.late_strings.drain(..) {
            lol_html_str_free(s);
        }
        for c in shb.end_ctxs.drain(..) {
            drop(Box::from_raw(c));
        }
        let log = std::mem::take(&mut shb.log);
        let invocations = shb.invocations;
        let balance = shb.stream_created - shb.stream_drops;
        let probe_problems = std::mem::take(&mut shb.probe_problems);
        let probe_calls = shb.probe_calls;
        drop(shb);
        let mut result = RunResult { log, hook: lol_html::verif::take_events(), written: pos, invocations };
        if let Some(s) = stale {
            result.log.push(Rec::Bail { idx: 999, kind: ErrKind::Handler(format!("STALE LAST ERROR: {s}")) });
        }
        Ok(CRun { result, stream_balance: balance, probe_problems, probe_calls })
    }
}
