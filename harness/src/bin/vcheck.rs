use vharness::core::{replay_prop, run_prop, RunOpts, Tier};

// per-thread live-heap accounting for the retention monitor (C10); forwards to the system allocator
#[global_allocator]
static ALLOC: vharness::retention::CountingAlloc = vharness::retention::CountingAlloc;

fn main() {
    let args: Vec<String> = std::env::args().collect();
    if args.len() < 2 {
        eprintln!("usage: vcheck <Cxx> [--tier quick|thorough] [--seed N] [--replay file] [--flavour f] [--evidence path] [--shards n]");
        std::process::exit(2);
    }
    let id = args[1].clone();
    let mut tier = match std::env::var("VERIF_TIER").as_deref() {
        Ok("thorough") => Tier::Thorough,
        _ => Tier::Quick,
    };
    let mut seed: u64 = std::env::var("VERIF_SEED").ok().and_then(|s| s.parse::<i64>().ok()).map(|x| x as u64).unwrap_or(1);
    let mut replay: Option<String> = None;
    let mut flavour = "dbg".to_string();
    let mut verif_dir = std::env::var("VERIF_DIR").unwrap_or_else(|_| "/verif".into());
    // parameters travel by argv: under `cargo miri run` the program sees the environment recorded when the binary was
    // built, not the one of this invocation (the environment variables stay as a fallback for manual use)
    let mut scale_arg: Option<f64> = None;
    let mut evidence: Option<String> = None;
    let mut nshards = None;
    let mut worker: Option<u64> = None;
    let mut batches: u64 = 1;
    let mut only_batch: Option<u64> = None;
    let mut careful = false;
    let mut no_min = false;
    let mut single: Option<String> = None;
    let mut i = 2;
    while i < args.len() {
        match args[i].as_str() {
            "--tier" => {
                tier = if args[i + 1] == "thorough" { Tier::Thorough } else { Tier::Quick };
                i += 1;
            }
            "--seed" => {
                seed = args[i + 1].parse::<i64>().expect("seed") as u64;
                i += 1;
            }
            "--replay" => {
                replay = Some(args[i + 1].clone());
                i += 1;
            }
            "--flavour" => {
                flavour = args[i + 1].clone();
                i += 1;
            }
            "--scale" => {
                scale_arg = args[i + 1].parse().ok();
                i += 1;
            }
            "--verif-dir" => {
                verif_dir = args[i + 1].clone();
                i += 1;
            }
            "--evidence" => {
                evidence = Some(args[i + 1].clone());
                i += 1;
            }
            "--worker" => {
                worker = Some(args[i + 1].parse().expect("worker"));
                i += 1;
            }
            "--batches" => {
                batches = args[i + 1].parse().expect("batches");
                i += 1;
            }
            "--only-batch" => {
                only_batch = Some(args[i + 1].parse().expect("only-batch"));
                i += 1;
            }
            "--careful" => careful = true,
            "--no-min" => no_min = true,
            "--version-probe" => {
                println!("usage: vcheck <Cxx> ... (version probe)");
                std::process::exit(0);
            }
            "--single" => {
                single = Some(args[i + 1].clone());
                i += 1;
            }
            "--shards" => {
                nshards = Some(args[i + 1].parse().expect("shards"));
                i += 1;
            }
            x => {
                eprintln!("unknown argument {x}");
                std::process::exit(2);
            }
        }
        i += 1;
    }
    if id == "selftest" {
        // oracle validation of the structured generator against html5ever
        let n: u64 = 200_000;
        let mut rng = vharness::rng::Rng::new(seed);
        let mut bad = 0;
        for i in 0..n {
            let o = vharness::structgen::Opts { truncate: false, esi: false, ..Default::default() };
            let d = vharness::structgen::gen_doc(&mut rng, &o);
            if let Err(e) = vharness::truth::validate(&d) {
                println!("MISMATCH at {i}: {e}");
                bad += 1;
                if bad > 5 { break; }
            }
        }
        println!("selftest: {n} docs, {bad} mismatches");
        std::process::exit(if bad > 0 { 2 } else { 0 });
    }
    if id == "retention" {
        // debug aid: table of retained heap bytes per stream kind / selector set
        use vharness::retention::*;
        println!("counting allocator installed: {}", installed());
        let sets: &[&[&str]] = &[&[], &["*"], &["div span", "p"], &["*:nth-child(2)"], &["*:nth-of-type(2)"], &["main > *", "[a]"]];
        for &k in STREAMS {
            for set in sets {
                let sel: Vec<String> = set.iter().map(|s| s.to_string()).collect();
                let a = retained_after(&sel, true, 1 << 20, &stream(k, 1500), 1000);
                let b = retained_after(&sel, true, 1 << 20, &stream(k, 6000), 1000);
                println!("{k:?} {set:?}: n=1500 -> {a:?}, n=6000 -> {b:?}");
            }
        }
        let ser = retained_series(&["*:nth-child(2)".to_string()], true, 1 << 20, &stream(Stream::VoidsAndForeign, 6000), 1000);
        println!("series VoidsAndForeign nth-child: last {:?} max {:?} len {}", &ser[ser.len()-4..], ser.iter().max(), ser.len());
        let ser = retained_series(&["*".to_string()], true, 1 << 20, &stream(Stream::ClosedByParent, 6000), 1000);
        println!("series ClosedByParent *: last {:?} max {:?} argmax {:?}", &ser[ser.len()-4..], ser.iter().max(), ser.iter().enumerate().max_by_key(|x| *x.1).map(|x| x.0));
        return;
    }
    vharness::engine::install_quiet_panic_hook();
    if id == "C15" {
        if let Some(w) = worker {
            std::process::exit(vharness::props::c15::worker_main(seed, w, batches, only_batch, careful));
        }
        if let Some(s) = single {
            std::process::exit(vharness::props::c15::single_main(&s));
        }
    }
    let props = vharness::props::all();
    let Some(p) = props.iter().find(|p| p.id() == id) else {
        eprintln!("unknown property {id}");
        std::process::exit(2);
    };
    if let Some(r) = replay {
        std::process::exit(replay_prop(p.as_ref(), &r));
    }
    let scale: f64 = scale_arg.or_else(|| std::env::var("VERIF_SCALE").ok().and_then(|s| s.parse().ok())).unwrap_or(1.0);
    let evidence_path = evidence.unwrap_or_else(|| format!("{verif_dir}/evidence/{id}.json"));
    let o = RunOpts { tier, seed, scale, flavour, verif_dir, evidence_path, nshards, enforce_min: !no_min };
    std::process::exit(run_prop(p.as_ref(), &o));
}
