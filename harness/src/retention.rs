//! Heap-retention monitor (C10): a counting global allocator with per-thread live-byte counters, and a minimal
//! driver (no logging, discarding sink, no-op handlers) that reports how many heap bytes a rewriter keeps alive
//! after it has consumed a stream whose nesting depth is bounded and whose tokens are all complete.
//!
//! The oracle is relational and tied to the configured limit M: for such streams everything input-driven that
//! the rewriter retains is "open-element bookkeeping" or parsing buffer, so the retained heap after 4n items may
//! not exceed the retained heap after n items by more than M.

use lol_html::{HtmlRewriter, MemorySettings, Settings};
use std::alloc::{GlobalAlloc, Layout, System};
use std::cell::Cell;

thread_local! {
    static LIVE: Cell<isize> = const { Cell::new(0) };
}

pub struct CountingAlloc;

#[inline]
fn add(n: isize) {
    let _ = LIVE.try_with(|l| l.set(l.get() + n));
}

// SAFETY: forwards to the system allocator unchanged; only counts.
unsafe impl GlobalAlloc for CountingAlloc {
    unsafe fn alloc(&self, l: Layout) -> *mut u8 {
        let p = System.alloc(l);
        if !p.is_null() {
            add(l.size() as isize);
        }
        p
    }
    unsafe fn dealloc(&self, p: *mut u8, l: Layout) {
        System.dealloc(p, l);
        add(-(l.size() as isize));
    }
    unsafe fn alloc_zeroed(&self, l: Layout) -> *mut u8 {
        let p = System.alloc_zeroed(l);
        if !p.is_null() {
            add(l.size() as isize);
        }
        p
    }
    unsafe fn realloc(&self, p: *mut u8, l: Layout, new_size: usize) -> *mut u8 {
        let q = System.realloc(p, l, new_size);
        if !q.is_null() {
            add(new_size as isize - l.size() as isize);
        }
        q
    }
}

/// live heap bytes allocated (and not yet freed) by the current thread
pub fn live_bytes() -> isize {
    LIVE.try_with(|l| l.get()).unwrap_or(0)
}

/// is the counting allocator installed in this binary?
pub fn installed() -> bool {
    let before = live_bytes();
    // (black_box: an optimising build would otherwise elide the unused allocation)
    let v: Vec<u8> = std::hint::black_box(Vec::with_capacity(std::hint::black_box(1 << 16)));
    let during = live_bytes();
    drop(std::hint::black_box(v));
    during - before >= (1 << 16)
}

#[derive(Clone, Copy, Debug, PartialEq, Eq, serde_derive::Serialize, serde_derive::Deserialize)]
pub enum Stream {
    /// `<tagNNNNNNNNNNNN a=b>t</tagNNNNNNNNNNNN>`: distinct names too long for the name hash
    DistinctLongNames,
    /// `<tNNN>..</tNNN>`: distinct short (hashable) names
    DistinctShortNames,
    SameName,
    /// distinct long names, never closed explicitly but closed by the recurring `</section>` of their parent
    ClosedByParent,
    /// stray end tags with distinct names
    StrayEndTags,
    CommentsAndText,
    /// void elements and self-closing foreign elements with distinct attribute names
    VoidsAndForeign,
    /// distinct long names, depth-4 groups
    NestedGroups,
}

pub const STREAMS: &[Stream] = &[Stream::DistinctLongNames, Stream::DistinctShortNames, Stream::SameName, Stream::ClosedByParent, Stream::StrayEndTags, Stream::CommentsAndText, Stream::VoidsAndForeign, Stream::NestedGroups];

pub fn stream(kind: Stream, n: usize) -> Vec<u8> {
    let mut v: Vec<u8> = Vec::with_capacity(n * 48);
    v.extend_from_slice(b"<!doctype html><body><main>");
    for i in 0..n {
        let s = match kind {
            Stream::DistinctLongNames => format!("<tag{i:012} a=b>t</tag{i:012}>"),
            Stream::DistinctShortNames => format!("<t{}>x</t{}>", i % 30000, i % 30000),
            Stream::SameName => "<div class=x><span>t</span></div>".to_string(),
            Stream::ClosedByParent => format!("<section><open{i:012}><p>x</section>"),
            Stream::StrayEndTags => format!("</stray{i:012}>x"),
            Stream::CommentsAndText => format!("<!-- c{i} -->text {i} &amp; more"),
            Stream::VoidsAndForeign => format!("<br a{i}=1><svg><path d{i}='z'/></svg><img src=x{i}>"),
            Stream::NestedGroups => format!("<g{i:012}><div><ul><li>x</li></ul></div></g{i:012}>"),
        };
        v.extend_from_slice(s.as_bytes());
    }
    v
}

/// heap bytes the current thread holds for one rewriter right after the last `write()` (before `end()`), or None when
/// the run failed (memory limit)
/// like `retained_after` but samples the retained bytes after every write (debug aid / evidence)
pub fn retained_series(selectors: &[String], doc_handlers: bool, max_mem: usize, input: &[u8], chunk: usize) -> Vec<isize> {
    drop(lol_html::verif::take_events());
    let base = live_bytes();
    let mut out = vec![];
    let mut sink_bytes = 0usize;
    {
        let mut settings = Settings::new().with_memory_settings(MemorySettings::new().with_max_allowed_memory_usage(max_mem).with_preallocated_parsing_buffer_size(0));
        for s in selectors {
            let Ok(sel) = s.parse::<lol_html::Selector>() else { return out };
            settings = settings.append_element_content_handler((std::borrow::Cow::Owned(sel), lol_html::ElementContentHandlers::default().element(|_el: &mut lol_html::html_content::Element<'_, '_>| Ok(()))));
        }
        if doc_handlers {
            settings = settings.append_document_content_handler(
                lol_html::DocumentContentHandlers::default()
                    .comments(|_c: &mut lol_html::html_content::Comment<'_>| Ok(()))
                    .text(|_t: &mut lol_html::html_content::TextChunk<'_>| Ok(())),
            );
        }
        let mut rw = HtmlRewriter::new(settings, |c: &[u8]| sink_bytes += c.len());
        out.reserve(input.len() / chunk.max(1) + 2);
        let cap = (out.capacity() * std::mem::size_of::<isize>()) as isize;
        for part in input.chunks(chunk.max(1)) {
            if rw.write(part).is_err() {
                break;
            }
            drop(lol_html::verif::take_events()); // the hook log is thread-local heap too
            out.push(live_bytes() - base - cap);
        }
        let _ = rw.end();
    }
    out
}

pub fn retained_after(selectors: &[String], doc_handlers: bool, max_mem: usize, input: &[u8], chunk: usize) -> Option<isize> {
    drop(lol_html::verif::take_events());
    let base = live_bytes();
    let mut sink_bytes = 0usize;
    let retained;
    {
        let mut settings = Settings::new().with_memory_settings(MemorySettings::new().with_max_allowed_memory_usage(max_mem).with_preallocated_parsing_buffer_size(0));
        for s in selectors {
            let sel: lol_html::Selector = s.parse().ok()?;
            settings = settings.append_element_content_handler((std::borrow::Cow::Owned(sel), lol_html::ElementContentHandlers::default().element(|_el: &mut lol_html::html_content::Element<'_, '_>| Ok(()))));
        }
        if doc_handlers {
            settings = settings.append_document_content_handler(
                lol_html::DocumentContentHandlers::default()
                    .comments(|_c: &mut lol_html::html_content::Comment<'_>| Ok(()))
                    .text(|_t: &mut lol_html::html_content::TextChunk<'_>| Ok(())),
            );
        }
        let mut rw = HtmlRewriter::new(settings, |c: &[u8]| sink_bytes += c.len());
        for part in input.chunks(chunk.max(1)) {
            if rw.write(part).is_err() {
                return None;
            }
        }
        drop(lol_html::verif::take_events()); // the hook log is thread-local heap too
        retained = live_bytes() - base;
        let _ = rw.end();
    }
    Some(retained)
}
