//! RefAttr: an independent WHATWG tokenizer for the bytes of ONE tag (`<name …>` or `</name …>`).
//! Produces byte ranges relative to the tag start. Works on bytes of any ASCII-compatible
//! encoding (all syntax characters are ASCII).

#[derive(Clone, Debug, PartialEq, Eq)]
pub struct RAttr {
    pub name: (usize, usize),
    /// value bytes without quotes; for a missing value an empty range (position unspecified)
    pub value: (usize, usize),
    pub has_value: bool,
}

#[derive(Clone, Debug, PartialEq, Eq)]
pub struct RTag {
    pub is_end: bool,
    pub name: (usize, usize),
    pub attrs: Vec<RAttr>,
    pub self_closing: bool,
    /// index one past the closing '>'
    pub end: usize,
}

fn ws(c: u8) -> bool {
    matches!(c, b'\t' | b'\n' | b'\x0c' | b' ' | b'\r')
}

/// Parses a complete tag at the start of `b`. Returns None if `b` does not start with a tag or the
/// tag is not terminated.
pub fn parse_tag(b: &[u8]) -> Option<RTag> {
    if b.first() != Some(&b'<') {
        return None;
    }
    let mut i = 1;
    let mut is_end = false;
    if b.get(i) == Some(&b'/') {
        is_end = true;
        i += 1;
    }
    if !b.get(i)?.is_ascii_alphabetic() {
        return None;
    }
    let ns = i;
    while i < b.len() && !ws(b[i]) && b[i] != b'/' && b[i] != b'>' {
        i += 1;
    }
    let name = (ns, i);
    let mut attrs: Vec<RAttr> = vec![];
    let mut self_closing = false;
    #[derive(PartialEq)]
    enum S {
        BeforeName,
        SelfClosing,
    }
    let mut st = S::BeforeName;
    loop {
        let c = *b.get(i)?;
        match st {
            S::SelfClosing => {
                if c == b'>' {
                    self_closing = true;
                    return Some(RTag { is_end, name, attrs, self_closing, end: i + 1 });
                }
                st = S::BeforeName; // reconsume
            }
            S::BeforeName => {
                if ws(c) {
                    i += 1;
                } else if c == b'/' {
                    i += 1;
                    st = S::SelfClosing;
                } else if c == b'>' {
                    return Some(RTag { is_end, name, attrs, self_closing, end: i + 1 });
                } else {
                    // attribute name state (a leading '=' is part of the name)
                    let an = i;
                    i += 1;
                    while i < b.len() && !ws(b[i]) && b[i] != b'/' && b[i] != b'>' && b[i] != b'=' {
                        i += 1;
                    }
                    let ae = i;
                    // after attribute name
                    while i < b.len() && ws(b[i]) {
                        i += 1;
                    }
                    let c2 = *b.get(i)?;
                    if c2 == b'=' {
                        i += 1;
                        while i < b.len() && ws(b[i]) {
                            i += 1;
                        }
                        let c3 = *b.get(i)?;
                        if c3 == b'"' || c3 == b'\'' {
                            i += 1;
                            let vs = i;
                            while *b.get(i)? != c3 {
                                i += 1;
                            }
                            attrs.push(RAttr { name: (an, ae), value: (vs, i), has_value: true });
                            i += 1;
                            // after attribute value (quoted)
                        } else if c3 == b'>' {
                            attrs.push(RAttr { name: (an, ae), value: (i, i), has_value: false });
                        } else {
                            let vs = i;
                            while i < b.len() && !ws(b[i]) && b[i] != b'>' {
                                i += 1;
                            }
                            attrs.push(RAttr { name: (an, ae), value: (vs, i), has_value: true });
                        }
                    } else {
                        attrs.push(RAttr { name: (an, ae), value: (ae, ae), has_value: false });
                    }
                }
            }
        }
    }
}

#[cfg(test)]
mod tests {
    use super::*;
    #[test]
    fn basic() {
        let t = parse_tag(b"<a b=c/ d='e' f g=\"h\"/>").unwrap();
        assert_eq!(t.attrs.len(), 4);
        assert!(t.self_closing);
        let t = parse_tag(b"<a b=c/>").unwrap();
        assert!(!t.self_closing);
        assert_eq!(&b"<a b=c/>"[t.attrs[0].value.0..t.attrs[0].value.1], b"c/");
    }
}
