//! Deterministic PRNG (SplitMix64 seeding xoshiro256**). Streams are derived from
//! (VERIF_SEED, property id, shard) so that every run is reproducible from its seed.

#[derive(Clone)]
pub struct Rng {
    s: [u64; 4],
}

fn splitmix(x: &mut u64) -> u64 {
    *x = x.wrapping_add(0x9E37_79B9_7F4A_7C15);
    let mut z = *x;
    z = (z ^ (z >> 30)).wrapping_mul(0xBF58_476D_1CE4_E5B9);
    z = (z ^ (z >> 27)).wrapping_mul(0x94D0_49BB_1331_11EB);
    z ^ (z >> 31)
}

pub fn hash_str(s: &str) -> u64 {
    fnv(s.as_bytes())
}

pub fn fnv(b: &[u8]) -> u64 {
    let mut h: u64 = 0xcbf2_9ce4_8422_2325;
    for &c in b {
        h ^= u64::from(c);
        h = h.wrapping_mul(0x0000_0100_0000_01b3);
    }
    h
}

pub fn mix(a: u64, b: u64) -> u64 {
    let mut x = a ^ b.rotate_left(29) ^ 0x5851_F42D_4C95_7F2D;
    splitmix(&mut x)
}

impl Rng {
    pub fn new(seed: u64) -> Self {
        let mut x = seed;
        Rng {
            s: [
                splitmix(&mut x),
                splitmix(&mut x),
                splitmix(&mut x),
                splitmix(&mut x),
            ],
        }
    }

    pub fn derive(seed: u64, tag: &str, shard: u64) -> Self {
        Self::new(mix(mix(seed, hash_str(tag)), shard))
    }

    #[inline]
    pub fn next(&mut self) -> u64 {
        let r = self.s[1].wrapping_mul(5).rotate_left(7).wrapping_mul(9);
        let t = self.s[1] << 17;
        self.s[2] ^= self.s[0];
        self.s[3] ^= self.s[1];
        self.s[1] ^= self.s[2];
        self.s[0] ^= self.s[3];
        self.s[2] ^= t;
        self.s[3] = self.s[3].rotate_left(45);
        r
    }

    /// uniform in 0..n (n>0)
    #[inline]
    pub fn below(&mut self, n: usize) -> usize {
        debug_assert!(n > 0);
        (self.next() % (n as u64)) as usize
    }

    /// inclusive range
    #[inline]
    pub fn range(&mut self, lo: usize, hi: usize) -> usize {
        lo + self.below(hi - lo + 1)
    }

    #[inline]
    pub fn chance(&mut self, num: usize, den: usize) -> bool {
        self.below(den) < num
    }

    #[inline]
    pub fn bool(&mut self) -> bool {
        self.next() & 1 == 1
    }

    #[inline]
    pub fn pick<'a, T>(&mut self, xs: &'a [T]) -> &'a T {
        &xs[self.below(xs.len())]
    }

    pub fn shuffle<T>(&mut self, xs: &mut [T]) {
        for i in (1..xs.len()).rev() {
            let j = self.below(i + 1);
            xs.swap(i, j);
        }
    }

    /// geometric-ish small number: 0.. with mean about `mean`
    pub fn small(&mut self, mean: usize) -> usize {
        let mut n = 0;
        while self.below(mean + 1) != 0 && n < mean * 8 + 8 {
            n += 1;
        }
        n
    }
}
