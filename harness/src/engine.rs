//! The scripted-run engine: builds a real `HtmlRewriter` from a serialisable `Config`, drives it
//! with a write schedule and records everything observable at the API boundary into one log.

use lol_html::errors::RewritingError;
use lol_html::html_content::{
    Comment, ContentType, Doctype, DocumentEnd, Element, EndTag, StreamingHandlerSink, TextChunk,
};
use lol_html::{
    AsciiCompatibleEncoding, DocumentContentHandlers, ElementContentHandlers, HtmlRewriter,
    LocalHandlerTypes, MemorySettings, OutputSink, Selector, Settings,
};
use serde_derive::{Deserialize, Serialize};
use std::borrow::Cow;
use std::collections::HashMap;
use std::panic::{catch_unwind, AssertUnwindSafe};
use std::sync::{Arc, Mutex};

pub type HResult = Result<(), Box<dyn std::error::Error + Send + Sync + 'static>>;

// ------------------------------------------------------------------------------------------
// Config
// ------------------------------------------------------------------------------------------

#[derive(Clone, Debug, Serialize, Deserialize, PartialEq, Eq, Hash)]
pub struct Content {
    pub s: String,
    pub html: bool,
    #[serde(default)]
    pub streaming: bool,
}

impl Content {
    pub fn html(s: impl Into<String>) -> Self {
        Content { s: s.into(), html: true, streaming: false }
    }
    pub fn text(s: impl Into<String>) -> Self {
        Content { s: s.into(), html: false, streaming: false }
    }
}

/// One mutating API call. Ops that do not apply to the unit a handler receives are ignored.
#[derive(Clone, Debug, Serialize, Deserialize, PartialEq, Eq, Hash)]
pub enum Op {
    Before(Content),
    After(Content),
    Replace(Content),
    Remove,
    // element only
    Prepend(Content),
    Append(Content),
    SetInner(Content),
    RemoveKeep,
    SetAttr(String, String),
    RemoveAttr(String),
    SetTagName(String),
    StBefore(Content),
    StAfter(Content),
    StReplace(Content),
    StRemove,
    /// register an end-tag handler which logs and applies the inner ops (Before/After/Replace/Remove/SetTagName)
    OnEndTag(Vec<Op>),
    // comment only
    SetText(String),
    /// element: drop the end-tag handlers registered so far on this element
    ClearEndTagHandlers,
}

#[derive(Clone, Copy, Debug, Serialize, Deserialize, PartialEq, Eq, Hash)]
pub enum Sub {
    El,
    Text,
    Comment,
    Doctype,
    End,
}

#[derive(Clone, Debug, Serialize, Deserialize)]
pub struct ScriptEntry {
    pub hid: usize,
    pub sub: Sub,
    pub offset: usize,
    pub ops: Vec<Op>,
}

#[derive(Clone, Debug, Default, Serialize, Deserialize)]
pub struct ElH {
    pub selector: String,
    #[serde(default)]
    pub element: bool,
    #[serde(default)]
    pub text: bool,
    #[serde(default)]
    pub comments: bool,
    /// the element handler registers a logging end-tag handler
    #[serde(default)]
    pub end_tag: bool,
    /// ops applied at every invocation ("@@" in content is replaced by a unique position id)
    #[serde(default)]
    pub always_el: Vec<Op>,
    #[serde(default)]
    pub always_text: Vec<Op>,
    #[serde(default)]
    pub always_comment: Vec<Op>,
}

#[derive(Clone, Debug, Default, Serialize, Deserialize)]
pub struct DocH {
    #[serde(default)]
    pub doctype: bool,
    #[serde(default)]
    pub comments: bool,
    #[serde(default)]
    pub text: bool,
    #[serde(default)]
    pub end: bool,
    #[serde(default)]
    pub always_doctype: Vec<Op>,
    #[serde(default)]
    pub always_text: Vec<Op>,
    #[serde(default)]
    pub always_comment: Vec<Op>,
    #[serde(default)]
    pub always_end: Vec<Op>,
}

#[derive(Clone, Debug, Serialize, Deserialize)]
pub struct Config {
    pub encoding: String,
    #[serde(default)]
    pub strict: bool,
    #[serde(default)]
    pub esi: bool,
    #[serde(default)]
    pub adjust_charset: bool,
    #[serde(default)]
    pub max_mem: Option<usize>,
    #[serde(default)]
    pub prealloc: Option<usize>,
    #[serde(default)]
    pub graceful_mem: bool,
    #[serde(default)]
    pub graceful_handler: bool,
    #[serde(default)]
    pub el: Vec<ElH>,
    #[serde(default)]
    pub doc: Vec<DocH>,
    /// number of bail-out handlers; each appends a unique marker if `bail_append`
    #[serde(default)]
    pub bail: usize,
    #[serde(default)]
    pub bail_append: bool,
    #[serde(default)]
    pub script: Vec<ScriptEntry>,
    /// 1-based handler invocation index that returns an error
    #[serde(default)]
    pub fail_at: Option<usize>,
    /// use `Settings::new_send()` / `send::HtmlRewriter`
    #[serde(default)]
    pub send: bool,
    /// read the element again after the ops were applied
    #[serde(default)]
    pub post_read: bool,
    /// probe get_attribute / has_attribute with case variants
    #[serde(default)]
    pub probe_attrs: bool,
    /// after an error, call write() again and record what happens
    #[serde(default)]
    pub probe_after_error: bool,
    /// do not call end() (used to sample output latency of a prefix)
    #[serde(default)]
    pub skip_end: bool,
}

impl Default for Config {
    fn default() -> Self {
        Config {
            encoding: "utf-8".into(),
            strict: false,
            esi: false,
            adjust_charset: false,
            max_mem: None,
            prealloc: None,
            graceful_mem: false,
            graceful_handler: false,
            el: vec![],
            doc: vec![],
            bail: 0,
            bail_append: false,
            script: vec![],
            fail_at: None,
            send: false,
            post_read: false,
            probe_attrs: false,
            probe_after_error: false,
            skip_end: false,
        }
    }
}

impl Config {
    pub fn enc(&self) -> &'static encoding_rs::Encoding {
        encoding_rs::Encoding::for_label(self.encoding.as_bytes()).expect("bad encoding label")
    }
    pub fn has_handlers(&self) -> bool {
        !self.el.is_empty() || !self.doc.is_empty()
    }
}

// ------------------------------------------------------------------------------------------
// Log
// ------------------------------------------------------------------------------------------

#[derive(Clone, Debug, PartialEq, Eq, Serialize, Deserialize)]
pub enum ErrKind {
    Mem,
    Ambiguity,
    Handler(String),
}

#[derive(Clone, Debug, PartialEq, Eq, Serialize, Deserialize)]
pub enum Res {
    Ok,
    Err(ErrKind),
    Panic(String),
}

#[derive(Clone, Debug, PartialEq, Eq, Serialize, Deserialize)]
pub struct AttrRec {
    pub name: String,
    pub name_pc: String,
    pub value: String,
    pub name_loc: Option<(usize, usize)>,
    pub value_loc: Option<(usize, usize)>,
}

#[derive(Clone, Debug, PartialEq, Eq, Serialize, Deserialize)]
pub struct PostRead {
    pub name: String,
    pub name_pc: String,
    pub attrs: Vec<(String, String)>,
    pub removed: bool,
    pub op_errors: Vec<String>,
}

#[derive(Clone, Debug, PartialEq, Eq, Serialize, Deserialize)]
pub struct ElRec {
    pub hid: usize,
    pub start: usize,
    pub end: usize,
    pub name: String,
    pub name_pc: String,
    pub attrs: Vec<AttrRec>,
    pub ns: String,
    pub self_closing: bool,
    pub can_have_content: bool,
    pub removed: bool,
    pub failed: bool,
    pub probes: Vec<(String, Option<String>, bool)>,
    pub post: Option<PostRead>,
}

#[derive(Clone, Debug, PartialEq, Eq, Serialize, Deserialize)]
pub enum Rec {
    CallWrite(usize),
    CallEnd,
    Ret { res: Res, out_len: usize, mem: usize },
    /// monitor at the handler boundary (C14): a source location read again after the handler's own edits differs from
    /// what was read before them, or an attribute location breaks the documented rule (None once set, unchanged otherwise)
    LocChanged { what: String, before: Option<(usize, usize)>, after: Option<(usize, usize)> },
    /// write() attempted again after an error: did it panic?
    Probe { panicked: bool },
    Enc(String),
    Chunk(Vec<u8>),
    El(Box<ElRec>),
    EndTag { hid: usize, start: usize, end: usize, name: String, name_pc: String, failed: bool },
    Comment { hid: usize, start: usize, end: usize, text: String, failed: bool },
    Doctype { hid: usize, start: usize, end: usize, name: Option<String>, public: Option<String>, system: Option<String>, failed: bool },
    Text { hid: usize, start: usize, end: usize, text: String, tt: String, last: bool, failed: bool },
    DocEnd { hid: usize, failed: bool },
    Bail { idx: usize, kind: ErrKind },
}

impl Rec {
    pub fn is_handler_event(&self) -> bool {
        matches!(
            self,
            Rec::El(_) | Rec::EndTag { .. } | Rec::Comment { .. } | Rec::Doctype { .. } | Rec::Text { .. } | Rec::DocEnd { .. }
        )
    }
}

pub struct Shared {
    log: Vec<Rec>,
    invocations: usize,
    fail_at: Option<usize>,
    script: HashMap<(usize, Sub, usize), Vec<Op>>,
    out_len: usize,
    post_read: bool,
    probe_attrs: bool,
}

impl Shared {
    /// counts a handler invocation; true if this one must fail
    fn tick(&mut self) -> bool {
        self.invocations += 1;
        self.fail_at == Some(self.invocations)
    }
    fn ops_for(&self, hid: usize, sub: Sub, offset: usize, always: &[Op]) -> Vec<Op> {
        let mut v: Vec<Op> = always.to_vec();
        if let Some(o) = self.script.get(&(hid, sub, offset)) {
            v.extend(o.iter().cloned());
        }
        v
    }
}

type Sh = Arc<Mutex<Shared>>;

fn lock(sh: &Sh) -> std::sync::MutexGuard<'_, Shared> {
    sh.lock().unwrap_or_else(|e| e.into_inner())
}

fn injected() -> HResult {
    Err("injected handler failure".into())
}

pub struct LogSink(Sh);

impl OutputSink for LogSink {
    fn handle_chunk(&mut self, chunk: &[u8]) {
        let mut s = lock(&self.0);
        s.out_len += chunk.len();
        s.log.push(Rec::Chunk(chunk.to_vec()));
    }
    fn set_encoding(&mut self, e: AsciiCompatibleEncoding) {
        let enc: &'static encoding_rs::Encoding = e.into();
        lock(&self.0).log.push(Rec::Enc(enc.name().to_string()));
    }
}

fn ct(c: &Content) -> ContentType {
    if c.html {
        ContentType::Html
    } else {
        ContentType::Text
    }
}

fn subst(c: &Content, hid: usize, sub: Sub, offset: usize) -> String {
    if c.s.contains("@@") {
        let tag = match sub {
            Sub::El => 'e',
            Sub::Text => 't',
            Sub::Comment => 'c',
            Sub::Doctype => 'd',
            Sub::End => 'z',
        };
        c.s.replace("@@", &format!("{hid}{tag}{offset}"))
    } else {
        c.s.clone()
    }
}

/// piece sizes (cycled) for the `write_utf8_chunk` half of a streaming handler, derived from the content itself so that
/// the Rust and the C driver cut identically
pub fn utf8_piece_sizes(s: &str) -> &'static [usize] {
    match crate::rng::fnv(s.as_bytes()) % 5 {
        0 => &[usize::MAX],
        1 => &[1],
        2 => &[1, 2, 3],
        3 => &[2, 0, 1],
        _ => &[3, 1, 0, 0, 2],
    }
}

fn streamer(s: String, html: bool) -> Box<dyn lol_html::html_content::StreamingHandler + Send + 'static> {
    Box::new(move |sink: &mut StreamingHandlerSink<'_>| -> HResult {
        let t = if html { ContentType::Html } else { ContentType::Text };
        // two pieces, split at a char boundary near the middle
        let mut mid = s.len() / 2;
        while !s.is_char_boundary(mid) {
            mid += 1;
        }
        sink.write_str(&s[..mid], t);
        // second half: byte pieces (cut anywhere, also inside a character, with empty pieces) through write_utf8_chunk;
        // for valid UTF-8 this must be indistinguishable from write_str of the whole string
        let rest = s[mid..].as_bytes();
        let mut at = 0;
        let mut k = 0;
        let sizes = utf8_piece_sizes(&s);
        while at < rest.len() {
            let n = sizes[k % sizes.len()].min(rest.len() - at);
            k += 1;
            sink.write_utf8_chunk(&rest[at..at + n], t)?;
            at += n;
        }
        Ok(())
    })
}

macro_rules! content_ops {
    ($unit:expr, $op:expr, $hid:expr, $sub:expr, $off:expr) => {
        match $op {
            Op::Before(c) => {
                let s = subst(c, $hid, $sub, $off);
                if c.streaming { $unit.streaming_before(streamer(s, c.html)) } else { $unit.before(&s, ct(c)) }
                true
            }
            Op::After(c) => {
                let s = subst(c, $hid, $sub, $off);
                if c.streaming { $unit.streaming_after(streamer(s, c.html)) } else { $unit.after(&s, ct(c)) }
                true
            }
            Op::Replace(c) => {
                let s = subst(c, $hid, $sub, $off);
                if c.streaming { $unit.streaming_replace(streamer(s, c.html)) } else { $unit.replace(&s, ct(c)) }
                true
            }
            Op::Remove => {
                $unit.remove();
                true
            }
            _ => false,
        }
    };
}

fn apply_end_tag_ops(et: &mut EndTag<'_>, ops: &[Op], hid: usize, off: usize) {
    for op in ops {
        if content_ops!(et, op, hid, Sub::End, off) {
            continue;
        }
        if let Op::SetTagName(n) = op {
            // both spellings of the API
            if n.len() % 2 == 0 {
                et.set_name(n.as_str());
            } else {
                et.set_name_str(n.clone());
            }
        }
    }
}

fn loc(l: lol_html::html_content::SourceLocation) -> (usize, usize) {
    let r = l.bytes();
    (r.start, r.end)
}

macro_rules! impl_engine {
    ($modname:ident, $H:ty, $new:expr) => {
        pub mod $modname {
            use super::*;

            fn read_attrs(el: &Element<'_, '_, $H>) -> Vec<AttrRec> {
                el.attributes()
                    .iter()
                    .map(|a| AttrRec {
                        name: a.name(),
                        name_pc: a.name_preserve_case(),
                        value: a.value(),
                        name_loc: a.name_source_location().map(loc),
                        value_loc: a.value_source_location().map(loc),
                    })
                    .collect()
            }

            fn element_handler(
                sh: Sh,
                hid: usize,
                spec: ElH,
            ) -> impl FnMut(&mut Element<'_, '_, $H>) -> HResult + Send + 'static {
                move |el: &mut Element<'_, '_, $H>| -> HResult {
                    let (start, end) = loc(el.source_location());
                    let (fail, ops, post_read, probe) = {
                        let mut s = lock(&sh);
                        let fail = s.tick();
                        (fail, s.ops_for(hid, Sub::El, start, &spec.always_el), s.post_read, s.probe_attrs)
                    };
                    let attrs = read_attrs(el);
                    let mut probes = vec![];
                    if probe {
                        let mut names: Vec<String> = vec![];
                        for a in &attrs {
                            names.push(a.name.clone());
                            names.push(a.name_pc.to_ascii_uppercase());
                            names.push(a.name_pc.clone());
                        }
                        names.push("zz-absent".into());
                        for n in names {
                            let g = el.get_attribute(&n);
                            let h = el.has_attribute(&n);
                            probes.push((n, g, h));
                        }
                    }
                    let mut rec = ElRec {
                        hid,
                        start,
                        end,
                        name: el.tag_name(),
                        name_pc: el.tag_name_preserve_case(),
                        attrs,
                        ns: el.namespace_uri().to_string(),
                        self_closing: el.is_self_closing(),
                        can_have_content: el.can_have_content(),
                        removed: el.removed(),
                        failed: fail,
                        probes,
                        post: None,
                    };
                    if fail {
                        lock(&sh).log.push(Rec::El(Box::new(rec)));
                        return injected();
                    }
                    let mut op_errors = vec![];
                    if spec.end_tag {
                        let sh2 = sh.clone();
                        if let Some(v) = el.end_tag_handlers() {
                            v.push(Box::new(move |et: &mut EndTag<'_>| -> HResult {
                                let (s0, e0) = loc(et.source_location());
                                let fail = {
                                    let mut s = lock(&sh2);
                                    let fail = s.tick();
                                    s.log.push(Rec::EndTag { hid, start: s0, end: e0, name: et.name(), name_pc: et.name_preserve_case(), failed: fail });
                                    fail
                                };
                                if fail {
                                    return injected();
                                }
                                Ok(())
                            }));
                        }
                    }
                    for op in &ops {
                        if content_ops!(el, op, hid, Sub::El, start) {
                            continue;
                        }
                        match op {
                            Op::Prepend(c) => {
                                let s = subst(c, hid, Sub::El, start);
                                if c.streaming { el.streaming_prepend(streamer(s, c.html)) } else { el.prepend(&s, ct(c)) }
                            }
                            Op::Append(c) => {
                                let s = subst(c, hid, Sub::El, start);
                                if c.streaming { el.streaming_append(streamer(s, c.html)) } else { el.append(&s, ct(c)) }
                            }
                            Op::SetInner(c) => {
                                let s = subst(c, hid, Sub::El, start);
                                if c.streaming { el.streaming_set_inner_content(streamer(s, c.html)) } else { el.set_inner_content(&s, ct(c)) }
                            }
                            Op::RemoveKeep => el.remove_and_keep_content(),
                            Op::SetAttr(n, v) => {
                                if let Err(e) = el.set_attribute(n, v) {
                                    op_errors.push(format!("SetAttr:{e:?}"));
                                }
                            }
                            Op::RemoveAttr(n) => el.remove_attribute(n),
                            Op::SetTagName(n) => {
                                if let Err(e) = el.set_tag_name(n) {
                                    op_errors.push(format!("SetTagName:{e:?}"));
                                }
                            }
                            Op::StBefore(c) => {
                                let s = subst(c, hid, Sub::El, start);
                                if c.streaming { el.start_tag().streaming_before(streamer(s, c.html)) } else { el.start_tag().before(&s, ct(c)) }
                            }
                            Op::StAfter(c) => {
                                let s = subst(c, hid, Sub::El, start);
                                if c.streaming { el.start_tag().streaming_after(streamer(s, c.html)) } else { el.start_tag().after(&s, ct(c)) }
                            }
                            Op::StReplace(c) => {
                                let s = subst(c, hid, Sub::El, start);
                                if c.streaming { el.start_tag().streaming_replace(streamer(s, c.html)) } else { el.start_tag().replace(&s, ct(c)) }
                            }
                            Op::StRemove => el.start_tag().remove(),
                            Op::ClearEndTagHandlers => {
                                if let Some(v) = el.end_tag_handlers() {
                                    v.clear();
                                }
                            }
                            Op::OnEndTag(inner) => {
                                let sh2 = sh.clone();
                                let inner = inner.clone();
                                let r = el.on_end_tag(Box::new(move |et: &mut EndTag<'_>| -> HResult {
                                    let (s0, e0) = loc(et.source_location());
                                    let fail = {
                                        let mut s = lock(&sh2);
                                        let fail = s.tick();
                                        s.log.push(Rec::EndTag { hid, start: s0, end: e0, name: et.name(), name_pc: et.name_preserve_case(), failed: fail });
                                        fail
                                    };
                                    if fail {
                                        return injected();
                                    }
                                    apply_end_tag_ops(et, &inner, hid, start);
                                    let after = loc(et.source_location());
                                    if after != (s0, e0) {
                                        lock(&sh2).log.push(Rec::LocChanged { what: "end tag".into(), before: Some((s0, e0)), after: Some(after) });
                                    }
                                    Ok(())
                                }));
                                if r.is_err() {
                                    op_errors.push("OnEndTag:no-content".into());
                                }
                            }
                            _ => {}
                        }
                    }
                    {
                        // location monitor: edits never move what source_location() reports
                        let after = loc(el.source_location());
                        if after != (start, end) {
                            lock(&sh).log.push(Rec::LocChanged { what: "element".into(), before: Some((start, end)), after: Some(after) });
                        }
                        let set_names: Vec<String> = ops.iter().filter_map(|o| if let Op::SetAttr(n, _) = o { Some(n.to_ascii_lowercase()) } else { None }).collect();
                        // (hash maps: the monitor must stay linear in the number of attributes - C15 measures work)
                        let mut first_pre: HashMap<&str, &AttrRec> = HashMap::new();
                        for p in rec.attrs.iter() {
                            first_pre.entry(p.name.as_str()).or_insert(p);
                        }
                        let mut seen: std::collections::HashSet<String> = std::collections::HashSet::new();
                        for a in el.attributes() {
                            let n = a.name();
                            if !seen.insert(n.clone()) {
                                continue;
                            }
                            let (nl, vl) = (a.name_source_location().map(loc), a.value_source_location().map(loc));
                            if set_names.contains(&n) {
                                if nl.is_some() || vl.is_some() {
                                    lock(&sh).log.push(Rec::LocChanged { what: format!("attribute {n:?} was set by this handler, its locations must be None (name, then value)"), before: nl, after: vl });
                                }
                            } else if let Some(pre) = first_pre.get(n.as_str()) {
                                if (pre.name_loc, pre.value_loc) != (nl, vl) {
                                    lock(&sh).log.push(Rec::LocChanged { what: format!("untouched attribute {n:?}: value location before / after the handler's edits"), before: pre.value_loc, after: vl });
                                    if pre.name_loc != nl {
                                        lock(&sh).log.push(Rec::LocChanged { what: format!("untouched attribute {n:?}: name location before / after the handler's edits"), before: pre.name_loc, after: nl });
                                    }
                                }
                            }
                        }
                    }
                    if post_read {
                        rec.post = Some(PostRead {
                            name: el.tag_name(),
                            name_pc: el.tag_name_preserve_case(),
                            attrs: el.attributes().iter().map(|a| (a.name(), a.value())).collect(),
                            removed: el.removed(),
                            op_errors,
                        });
                    }
                    lock(&sh).log.push(Rec::El(Box::new(rec)));
                    Ok(())
                }
            }

            fn text_handler(sh: Sh, hid: usize, always: Vec<Op>) -> impl FnMut(&mut TextChunk<'_>) -> HResult + Send + 'static {
                // start offset of the text node whose chunks are being delivered (None between nodes)
                let mut node_start: Option<usize> = None;
                move |t: &mut TextChunk<'_>| -> HResult {
                    let (start, end) = loc(t.source_location());
                    let first = node_start.is_none();
                    let ns = *node_start.get_or_insert(start);
                    let last = t.last_in_text_node();
                    if last {
                        node_start = None;
                    }
                    let (fail, ops) = {
                        let mut s = lock(&sh);
                        let fail = s.tick();
                        s.log.push(Rec::Text { hid, start, end, text: t.as_str().to_string(), tt: format!("{:?}", t.text_type()), last, failed: fail });
                        (fail, s.ops_for(hid, Sub::Text, ns, &always))
                    };
                    if fail {
                        return injected();
                    }
                    // fragmentation-independent text edits: Before on the first chunk of the node, After on
                    // the last one, Replace = replace the first chunk and remove the others, Remove on all
                    for op in &ops {
                        match op {
                            Op::Before(_) if !first => {}
                            Op::After(_) if !last => {}
                            Op::Replace(_) if !first => t.remove(),
                            _ => {
                                let _ = content_ops!(t, op, hid, Sub::Text, ns);
                            }
                        }
                    }
                    let after = loc(t.source_location());
                    if after != (start, end) {
                        lock(&sh).log.push(Rec::LocChanged { what: "text chunk".into(), before: Some((start, end)), after: Some(after) });
                    }
                    Ok(())
                }
            }

            fn comment_handler(sh: Sh, hid: usize, always: Vec<Op>) -> impl FnMut(&mut Comment<'_>) -> HResult + Send + 'static {
                move |c: &mut Comment<'_>| -> HResult {
                    let (start, end) = loc(c.source_location());
                    let (fail, ops) = {
                        let mut s = lock(&sh);
                        let fail = s.tick();
                        s.log.push(Rec::Comment { hid, start, end, text: c.text(), failed: fail });
                        (fail, s.ops_for(hid, Sub::Comment, start, &always))
                    };
                    if fail {
                        return injected();
                    }
                    for op in &ops {
                        if content_ops!(c, op, hid, Sub::Comment, start) {
                            continue;
                        }
                        if let Op::SetText(s) = op {
                            let _ = c.set_text(s);
                        }
                    }
                    let after = loc(c.source_location());
                    if after != (start, end) {
                        lock(&sh).log.push(Rec::LocChanged { what: "comment".into(), before: Some((start, end)), after: Some(after) });
                    }
                    Ok(())
                }
            }

            fn doctype_handler(sh: Sh, hid: usize, always: Vec<Op>) -> impl FnMut(&mut Doctype<'_>) -> HResult + Send + 'static {
                move |d: &mut Doctype<'_>| -> HResult {
                    let (start, end) = loc(d.source_location());
                    let (fail, ops) = {
                        let mut s = lock(&sh);
                        let fail = s.tick();
                        s.log.push(Rec::Doctype { hid, start, end, name: d.name(), public: d.public_id(), system: d.system_id(), failed: fail });
                        (fail, s.ops_for(hid, Sub::Doctype, start, &always))
                    };
                    if fail {
                        return injected();
                    }
                    for op in &ops {
                        if matches!(op, Op::Remove) {
                            d.remove();
                        }
                    }
                    let after = loc(d.source_location());
                    if after != (start, end) {
                        lock(&sh).log.push(Rec::LocChanged { what: "doctype".into(), before: Some((start, end)), after: Some(after) });
                    }
                    Ok(())
                }
            }

            fn end_handler(sh: Sh, hid: usize, always: Vec<Op>) -> impl FnOnce(&mut DocumentEnd<'_>) -> HResult + Send + 'static {
                move |e: &mut DocumentEnd<'_>| -> HResult {
                    let (fail, ops) = {
                        let mut s = lock(&sh);
                        let fail = s.tick();
                        s.log.push(Rec::DocEnd { hid, failed: fail });
                        (fail, s.ops_for(hid, Sub::End, 0, &always))
                    };
                    if fail {
                        return injected();
                    }
                    for op in &ops {
                        if let Op::Append(c) = op {
                            e.append(&subst(c, hid, Sub::End, 0), ct(c));
                        }
                    }
                    Ok(())
                }
            }

            pub fn build<'s>(cfg: &Config, sh: &Sh) -> Result<Settings<'static, 's, $H>, String> {
                let mut st: Settings<'static, 's, $H> = $new;
                let enc = AsciiCompatibleEncoding::new(cfg.enc()).ok_or_else(|| "non-ascii-compatible".to_string())?;
                let mut mem = MemorySettings::new().with_graceful_bail_out_on_memory_limit_exceeded(cfg.graceful_mem);
                if let Some(m) = cfg.max_mem {
                    mem = mem.with_max_allowed_memory_usage(m);
                }
                if let Some(p) = cfg.prealloc {
                    mem = mem.with_preallocated_parsing_buffer_size(p);
                }
                st = st
                    .with_encoding(enc)
                    .with_strict(cfg.strict)
                    .with_enable_esi_tags(cfg.esi)
                    .with_adjust_charset_on_meta_tag(cfg.adjust_charset)
                    .with_graceful_bail_out_on_content_handler_error(cfg.graceful_handler)
                    .with_memory_settings(mem);
                for (hid, e) in cfg.el.iter().enumerate() {
                    let sel: Selector = e.selector.parse().map_err(|er| format!("selector {:?}: {er:?}", e.selector))?;
                    let mut h = ElementContentHandlers::default();
                    if e.element || e.end_tag {
                        h = h.element(element_handler(sh.clone(), hid, e.clone()));
                    }
                    if e.text {
                        h = h.text(text_handler(sh.clone(), hid, e.always_text.clone()));
                    }
                    if e.comments {
                        h = h.comments(comment_handler(sh.clone(), hid, e.always_comment.clone()));
                    }
                    st = st.append_element_content_handler((Cow::Owned(sel), h));
                }
                let base = cfg.el.len();
                for (i, d) in cfg.doc.iter().enumerate() {
                    let hid = base + i;
                    let mut h = DocumentContentHandlers::default();
                    if d.doctype {
                        h = h.doctype(doctype_handler(sh.clone(), hid, d.always_doctype.clone()));
                    }
                    if d.comments {
                        h = h.comments(comment_handler(sh.clone(), hid, d.always_comment.clone()));
                    }
                    if d.text {
                        h = h.text(text_handler(sh.clone(), hid, d.always_text.clone()));
                    }
                    if d.end {
                        h = h.end(end_handler(sh.clone(), hid, d.always_end.clone()));
                    }
                    st = st.append_document_content_handler(h);
                }
                for idx in 0..cfg.bail {
                    let sh2 = sh.clone();
                    let app = cfg.bail_append;
                    st = st.append_bail_out_handler(move |err: &RewritingError, b: &mut lol_html::html_content::BailOut<'_>| {
                        lock(&sh2).log.push(Rec::Bail { idx, kind: err_kind(err) });
                        if app {
                            b.append(&format!("\u{27e6}bail{idx}\u{27e7}"), ContentType::Html);
                        }
                    });
                }
                Ok(st)
            }

            /// `rewrite_str` with the same handlers; returns (result, handler/sink log)
            pub fn run_str(cfg: &Config, input: &str) -> Result<(Result<String, ErrKind>, RunResult), String> {
                let sh = new_shared(cfg);
                let st = build(cfg, &sh)?;
                let _ = lol_html::verif::take_events();
                let r = catch_unwind(AssertUnwindSafe(|| lol_html::rewrite_str(input, st)));
                let hook = lol_html::verif::take_events();
                let log = std::mem::take(&mut lock(&sh).log);
                let invocations = lock(&sh).invocations;
                let rr = RunResult { log, hook, written: input.len(), invocations };
                match r {
                    Ok(Ok(s)) => Ok((Ok(s), rr)),
                    Ok(Err(e)) => Ok((Err(err_kind(&e)), rr)),
                    Err(p) => Ok((Err(ErrKind::Handler(format!("PANIC: {}", panic_msg(&p)))), rr)),
                }
            }

            pub fn run(cfg: &Config, input: &[u8], cuts: &[usize]) -> Result<RunResult, String> {
                let sh = new_shared(cfg);
                let st = build(cfg, &sh)?;
                let _ = lol_html::verif::take_events();
                let mut rw: HtmlRewriter<'static, LogSink, $H> = HtmlRewriter::new(st, LogSink(sh.clone()));
                drive!(rw, sh, cfg, input, cuts)
            }
        }
    };
}

macro_rules! drive {
    ($rw:ident, $sh:ident, $cfg:ident, $input:ident, $cuts:ident) => {{
        let mut pos = 0usize;
        let mut failed = false;
        let mut bounds: Vec<usize> = $cuts.iter().copied().filter(|&c| c <= $input.len()).collect();
        bounds.push($input.len());
        for &b in &bounds {
            let b = b.max(pos);
            let chunk = &$input[pos..b];
            lock(&$sh).log.push(Rec::CallWrite(chunk.len()));
            let r = catch_unwind(AssertUnwindSafe(|| $rw.write(chunk)));
            let res = to_res(r);
            let mem = $rw.verif_memory_limiter().0;
            {
                let mut s = lock(&$sh);
                let out_len = s.out_len;
                s.log.push(Rec::Ret { res: res.clone(), out_len, mem });
            }
            pos = b;
            if res != Res::Ok {
                failed = true;
                break;
            }
        }
        if failed {
            if $cfg.probe_after_error {
                // every further use must panic: an empty write, a non-empty write, and end()
                let r = catch_unwind(AssertUnwindSafe(|| $rw.write(b"")));
                lock(&$sh).log.push(Rec::Probe { panicked: r.is_err() });
                let r = catch_unwind(AssertUnwindSafe(|| $rw.write(b"<probe>")));
                lock(&$sh).log.push(Rec::Probe { panicked: r.is_err() });
                let r = catch_unwind(AssertUnwindSafe(move || $rw.end()));
                lock(&$sh).log.push(Rec::Probe { panicked: r.is_err() });
            } else {
                // dropping a poisoned rewriter must be fine
                let _ = catch_unwind(AssertUnwindSafe(move || drop($rw)));
            }
        } else if $cfg.skip_end {
            let _ = catch_unwind(AssertUnwindSafe(move || drop($rw)));
        } else {
            lock(&$sh).log.push(Rec::CallEnd);
            let r = catch_unwind(AssertUnwindSafe(move || $rw.end()));
            let res = to_res(r);
            let mut s = lock(&$sh);
            let out_len = s.out_len;
            s.log.push(Rec::Ret { res, out_len, mem: 0 });
        }
        let hook = lol_html::verif::take_events();
        let log = std::mem::take(&mut lock(&$sh).log);
        let invocations = lock(&$sh).invocations;
        Ok(RunResult { log, hook, written: pos, invocations })
    }};
}

fn new_shared(cfg: &Config) -> Sh {
    let mut script = HashMap::new();
    for e in &cfg.script {
        script.entry((e.hid, e.sub, e.offset)).or_insert_with(Vec::new).extend(e.ops.iter().cloned());
    }
    Arc::new(Mutex::new(Shared {
        log: Vec::new(),
        invocations: 0,
        fail_at: cfg.fail_at,
        script,
        out_len: 0,
        post_read: cfg.post_read,
        probe_attrs: cfg.probe_attrs,
    }))
}

pub fn err_kind(e: &RewritingError) -> ErrKind {
    match e {
        RewritingError::MemoryLimitExceeded(_) => ErrKind::Mem,
        RewritingError::ParsingAmbiguity(_) => ErrKind::Ambiguity,
        RewritingError::ContentHandlerError(b) => ErrKind::Handler(b.to_string()),
        _ => ErrKind::Handler("unknown variant".into()),
    }
}

fn to_res(r: std::thread::Result<Result<(), RewritingError>>) -> Res {
    match r {
        Ok(Ok(())) => Res::Ok,
        Ok(Err(e)) => Res::Err(err_kind(&e)),
        Err(p) => Res::Panic(panic_msg(&p)),
    }
}

pub fn panic_msg(p: &Box<dyn std::any::Any + Send>) -> String {
    if let Some(s) = p.downcast_ref::<&str>() {
        (*s).to_string()
    } else if let Some(s) = p.downcast_ref::<String>() {
        s.clone()
    } else {
        "non-string panic".into()
    }
}

impl_engine!(local, LocalHandlerTypes, Settings::new());
impl_engine!(send, lol_html::send::SendHandlerTypes, Settings::new_send());

// ------------------------------------------------------------------------------------------
// RunResult
// ------------------------------------------------------------------------------------------

#[derive(Clone, Debug)]
pub struct RunResult {
    pub log: Vec<Rec>,
    pub hook: Vec<lol_html::verif::Event>,
    /// number of input bytes passed to write() (including the failing call)
    pub written: usize,
    pub invocations: usize,
}

impl RunResult {
    pub fn out(&self) -> Vec<u8> {
        let mut v = Vec::new();
        for r in &self.log {
            if let Rec::Chunk(c) = r {
                v.extend_from_slice(c);
            }
        }
        v
    }
    /// result of the last API call
    pub fn final_res(&self) -> Res {
        for r in self.log.iter().rev() {
            if let Rec::Ret { res, .. } = r {
                return res.clone();
            }
        }
        Res::Ok
    }
    pub fn ok(&self) -> bool {
        self.final_res() == Res::Ok
    }
    pub fn events(&self) -> impl Iterator<Item = &Rec> {
        self.log.iter().filter(|r| r.is_handler_event())
    }
    /// (bytes written so far, bytes emitted so far) after each successful write
    pub fn pending_series(&self) -> Vec<(usize, usize)> {
        let mut v = vec![];
        let mut inb = 0;
        let mut cur = 0;
        for r in &self.log {
            match r {
                Rec::CallWrite(n) => cur = *n,
                Rec::CallEnd => break,
                Rec::Ret { res: Res::Ok, out_len, .. } => {
                    inb += cur;
                    v.push((inb, *out_len));
                }
                _ => {}
            }
        }
        v
    }
    pub fn switches(&self) -> usize {
        self.hook
            .iter()
            .filter(|e| matches!(e, lol_html::verif::Event::SwitchToLexer | lol_html::verif::Event::SwitchToTagScanner))
            .count()
    }
}

/// Drives a `send::HtmlRewriter`, moving it to a freshly spawned thread for every write() and for end().
/// `between` is called on the driving thread between the calls (yield / sleep injection).
pub fn run_migrating(cfg: &Config, input: &[u8], cuts: &[usize], between: &mut dyn FnMut()) -> Result<RunResult, String> {
    let sh = new_shared(cfg);
    let st = send::build(cfg, &sh)?;
    let mut rw: Option<HtmlRewriter<'static, LogSink, lol_html::send::SendHandlerTypes>> = Some(HtmlRewriter::new(st, LogSink(sh.clone())));
    let mut pos = 0usize;
    let mut failed = false;
    let mut bounds: Vec<usize> = cuts.iter().copied().filter(|&c| c <= input.len()).collect();
    bounds.push(input.len());
    for &b in &bounds {
        let b = b.max(pos);
        let chunk: Vec<u8> = input[pos..b].to_vec();
        lock(&sh).log.push(Rec::CallWrite(chunk.len()));
        let mut r = rw.take().unwrap();
        let (r2, res) = std::thread::spawn(move || {
            let res = catch_unwind(AssertUnwindSafe(|| r.write(&chunk)));
            (r, to_res(res))
        })
        .join()
        .map_err(|_| "migration thread died".to_string())?;
        rw = Some(r2);
        {
            let mut s = lock(&sh);
            let out_len = s.out_len;
            s.log.push(Rec::Ret { res: res.clone(), out_len, mem: 0 });
        }
        pos = b;
        if res != Res::Ok {
            failed = true;
            break;
        }
        between();
    }
    if !failed {
        lock(&sh).log.push(Rec::CallEnd);
        let r = rw.take().unwrap();
        let res = std::thread::spawn(move || to_res(catch_unwind(AssertUnwindSafe(move || r.end())))).join().map_err(|_| "migration thread died".to_string())?;
        let mut s = lock(&sh);
        let out_len = s.out_len;
        s.log.push(Rec::Ret { res, out_len, mem: 0 });
    } else {
        drop(rw.take());
    }
    let log = std::mem::take(&mut lock(&sh).log);
    let invocations = lock(&sh).invocations;
    Ok(RunResult { log, hook: vec![], written: pos, invocations })
}

pub fn run_str(cfg: &Config, input: &str) -> Result<(Result<String, ErrKind>, RunResult), String> {
    if cfg.send {
        send::run_str(cfg, input)
    } else {
        local::run_str(cfg, input)
    }
}

pub fn run(cfg: &Config, input: &[u8], cuts: &[usize]) -> Result<RunResult, String> {
    if cfg.send {
        send::run(cfg, input, cuts)
    } else {
        local::run(cfg, input, cuts)
    }
}

/// Quiet panic hook: lol-html panics are caught and recorded, not printed (unless VERIF_PANIC_TRACE is set).
pub fn install_quiet_panic_hook() {
    if std::env::var_os("VERIF_PANIC_TRACE").is_none() {
        std::panic::set_hook(Box::new(|_| {}));
    }
}
