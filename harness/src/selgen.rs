//! Selector AST generator, CSS serialisation and the reference matcher (RefSelector).
//! The AST is what the reference evaluates, so lol-html's selector parser is inside the system under test.

use crate::reftree::{Node, Tree};
use crate::rng::Rng;
use crate::structgen::Ns;
use serde_derive::{Deserialize, Serialize};

#[derive(Clone, Copy, Debug, PartialEq, Eq, Serialize, Deserialize)]
pub enum AttrOp {
    Eq,
    Includes,
    Dash,
    Prefix,
    Suffix,
    Substr,
}

#[derive(Clone, Copy, Debug, PartialEq, Eq, Serialize, Deserialize)]
pub enum Flag {
    None,
    I,
    S,
}

#[derive(Clone, Debug, PartialEq, Eq, Serialize, Deserialize)]
pub enum Simple {
    Type(String),
    Universal,
    /// `|name`, `|*` (no namespace: matches no element of an HTML document) and `*|name`, `*|*` (any namespace)
    Ns { any: bool, name: Option<String> },
    Id(String),
    Class(String),
    AttrExists(String),
    Attr { name: String, op: AttrOp, value: String, flag: Flag },
    NthChild(i32, i32),
    NthOfType(i32, i32),
    FirstChild,
    FirstOfType,
    Not(Vec<Compound>),
}

#[derive(Clone, Debug, PartialEq, Eq, Serialize, Deserialize)]
pub struct Compound(pub Vec<Simple>);

#[derive(Clone, Copy, Debug, PartialEq, Eq, Serialize, Deserialize)]
pub enum Comb {
    Child,
    Desc,
}

#[derive(Clone, Debug, PartialEq, Eq, Serialize, Deserialize)]
pub struct Complex {
    pub first: Compound,
    pub rest: Vec<(Comb, Compound)>,
}

#[derive(Clone, Debug, PartialEq, Eq, Serialize, Deserialize)]
pub struct SelList(pub Vec<Complex>);

// ------------------------------------------------------------------------------------------
// serialisation
// ------------------------------------------------------------------------------------------

fn css_ident(s: &str) -> String {
    // identifiers from our pools are plain; escape anything unusual
    let mut out = String::new();
    for (i, c) in s.chars().enumerate() {
        if c.is_ascii_alphanumeric() || c == '-' || c == '_' || !c.is_ascii() {
            if i == 0 && c.is_ascii_digit() {
                out.push_str(&format!("\\{:x} ", c as u32));
            } else {
                out.push(c);
            }
        } else {
            out.push('\\');
            out.push(c);
        }
    }
    out
}

fn nth(a: i32, b: i32) -> String {
    if a == 0 {
        format!("{b}")
    } else if b == 0 {
        format!("{a}n")
    } else if b > 0 {
        format!("{a}n+{b}")
    } else {
        format!("{a}n{b}")
    }
}

impl Simple {
    pub fn css(&self) -> String {
        match self {
            Simple::Type(n) => css_ident(n),
            Simple::Universal => "*".into(),
            Simple::Ns { any, name } => format!("{}|{}", if *any { "*" } else { "" }, name.as_ref().map_or("*".to_string(), |n| css_ident(n))),
            Simple::Id(i) => format!("#{}", css_ident(i)),
            Simple::Class(c) => format!(".{}", css_ident(c)),
            Simple::AttrExists(n) => format!("[{}]", css_ident(n)),
            Simple::Attr { name, op, value, flag } => {
                let o = match op {
                    AttrOp::Eq => "=",
                    AttrOp::Includes => "~=",
                    AttrOp::Dash => "|=",
                    AttrOp::Prefix => "^=",
                    AttrOp::Suffix => "$=",
                    AttrOp::Substr => "*=",
                };
                let f = match flag {
                    Flag::None => "",
                    Flag::I => " i",
                    Flag::S => " s",
                };
                format!("[{}{}\"{}\"{}]", css_ident(name), o, value.replace('\\', "\\\\").replace('"', "\\\""), f)
            }
            Simple::NthChild(a, b) => format!(":nth-child({})", nth(*a, *b)),
            Simple::NthOfType(a, b) => format!(":nth-of-type({})", nth(*a, *b)),
            Simple::FirstChild => ":first-child".into(),
            Simple::FirstOfType => ":first-of-type".into(),
            Simple::Not(list) => format!(":not({})", list.iter().map(|c| c.css()).collect::<Vec<_>>().join(", ")),
        }
    }
}

impl Compound {
    pub fn css(&self) -> String {
        // a type / universal selector must come first
        let mut s = String::new();
        for x in &self.0 {
            if matches!(x, Simple::Type(_) | Simple::Universal | Simple::Ns { .. }) {
                s.push_str(&x.css());
            }
        }
        for x in &self.0 {
            if !matches!(x, Simple::Type(_) | Simple::Universal | Simple::Ns { .. }) {
                s.push_str(&x.css());
            }
        }
        s
    }
}

impl Complex {
    pub fn css(&self) -> String {
        let mut s = self.first.css();
        for (c, k) in &self.rest {
            s.push_str(match c {
                Comb::Child => " > ",
                Comb::Desc => " ",
            });
            s.push_str(&k.css());
        }
        s
    }
    pub fn uses_interesting(&self) -> bool {
        !self.rest.is_empty() || std::iter::once(&self.first).chain(self.rest.iter().map(|(_, c)| c)).any(|c| c.0.iter().any(|s| !matches!(s, Simple::Type(_) | Simple::Universal)))
    }
}

impl SelList {
    pub fn css(&self) -> String {
        self.0.iter().map(|c| c.css()).collect::<Vec<_>>().join(", ")
    }
    pub fn has_compound_or_nested_not(&self) -> bool {
        fn comp(c: &Compound, depth: usize) -> bool {
            c.0.iter().any(|s| match s {
                Simple::Not(list) => depth >= 1 || list.iter().any(|k| k.0.len() > 1 || comp(k, depth + 1)),
                _ => false,
            })
        }
        self.0.iter().any(|cx| comp(&cx.first, 0) || cx.rest.iter().any(|(_, c)| comp(c, 0)))
    }
}

// ------------------------------------------------------------------------------------------
// generation
// ------------------------------------------------------------------------------------------

pub const SEL_TYPES: &[&str] = &["div", "span", "p", "a", "b", "li", "ul", "td", "tr", "table", "svg", "g", "math", "mi", "br", "img", "x-foo", "abcdefghijklm", "foreignobject", "title", "section", "i", "em"];
pub const SEL_ATTRS: &[&str] = &["a", "b", "class", "id", "href", "data-x", "title", "lang", "x:y"];
pub const SEL_VALUES: &[&str] = &["", "x", "y", "foo", "x y", "foo-bar", "Foo", "abc", "b", "1", "en", "EN", "en-US", " ", "xyz", "a&b", "-", "é", "ab", "aab", "bab", "xy", "aa", "AB", "foo", "en-US", "b a"];
pub const SEL_IDS: &[&str] = &["x", "y", "foo", "Foo", "b", "1", "abc"];

/// attribute names whose values compare ASCII case-insensitively on HTML elements without a flag (HTML spec)
pub const HTML_CI_ATTRS: &[&str] = &[
    "accept", "accept-charset", "align", "alink", "axis", "bgcolor", "charset", "checked", "clear", "codetype", "color", "compact", "declare", "defer",
    "dir", "direction", "disabled", "enctype", "face", "frame", "hreflang", "http-equiv", "lang", "language", "link", "media", "method", "multiple",
    "nohref", "noresize", "noshade", "nowrap", "readonly", "rel", "rev", "rules", "scope", "scrolling", "selected", "shape", "target", "text", "type",
    "valign", "valuetype", "vlink",
];

pub fn gen_simple(rng: &mut Rng, depth: usize, allow_type: bool) -> Simple {
    match rng.below(if depth < 2 { 16 } else { 13 }) {
        0 | 1 if allow_type => Simple::Type((*rng.pick(SEL_TYPES)).to_string()),
        2 if allow_type => {
            // (not inside :not(): there `|name` is two components for lol-html, which meets the flattened-negation finding)
            if depth == 0 && rng.chance(1, 5) {
                Simple::Ns { any: rng.bool(), name: if rng.bool() { Some((*rng.pick(SEL_TYPES)).to_string()) } else { None } }
            } else {
                Simple::Universal
            }
        }
        3 => Simple::Id((*rng.pick(SEL_IDS)).to_string()),
        4 | 5 => Simple::Class((*rng.pick(SEL_IDS)).to_string()),
        6 => Simple::AttrExists((*rng.pick(SEL_ATTRS)).to_string()),
        7 | 8 | 9 => Simple::Attr {
            name: (*rng.pick(SEL_ATTRS)).to_string(),
            op: *rng.pick(&[AttrOp::Eq, AttrOp::Includes, AttrOp::Dash, AttrOp::Prefix, AttrOp::Suffix, AttrOp::Substr]),
            value: (*rng.pick(SEL_VALUES)).to_string(),
            flag: *rng.pick(&[Flag::None, Flag::None, Flag::I, Flag::S]),
        },
        10 => {
            let (a, b) = *rng.pick(&[(0, 1), (0, 2), (0, 3), (2, 0), (2, 1), (3, 0), (3, -1), (-1, 3), (1, 0), (1, 2), (-2, 5), (0, 0), (0, -1), (5, 2)]);
            Simple::NthChild(a, b)
        }
        11 => {
            let (a, b) = *rng.pick(&[(0, 1), (0, 2), (2, 0), (2, 1), (3, -1), (-1, 2), (1, 0), (0, 3)]);
            Simple::NthOfType(a, b)
        }
        12 => {
            if rng.bool() {
                Simple::FirstChild
            } else {
                Simple::FirstOfType
            }
        }
        _ => {
            // :not(...)
            let n = match rng.below(4) {
                0 | 1 => 1,
                2 => 2,
                _ => 3,
            };
            let list = (0..n).map(|_| gen_compound(rng, depth + 1)).collect();
            Simple::Not(list)
        }
    }
}

pub fn gen_compound(rng: &mut Rng, depth: usize) -> Compound {
    let n = match rng.below(6) {
        0..=2 => 1,
        3 | 4 => 2,
        _ => 3,
    };
    let mut v = vec![];
    let mut has_type = false;
    for _ in 0..n {
        let s = gen_simple(rng, depth, !has_type);
        if matches!(s, Simple::Type(_) | Simple::Universal | Simple::Ns { .. }) {
            has_type = true;
        }
        v.push(s);
    }
    Compound(v)
}

pub fn gen_complex(rng: &mut Rng) -> Complex {
    let first = gen_compound(rng, 0);
    let k = match rng.below(6) {
        0..=2 => 0,
        3 | 4 => 1,
        _ => rng.range(2, 3),
    };
    let rest = (0..k).map(|_| (if rng.bool() { Comb::Child } else { Comb::Desc }, gen_compound(rng, 0))).collect();
    Complex { first, rest }
}

/// structural selectors over a small name alphabet: types, nth-*, first-*, combinators
pub fn gen_structural(rng: &mut Rng, names: &[&str]) -> SelList {
    let comp = |rng: &mut Rng| -> Compound {
        let mut v = vec![];
        match rng.below(4) {
            0 => v.push(Simple::Universal),
            1 => {}
            _ => v.push(Simple::Type((*rng.pick(names)).to_string())),
        }
        if v.is_empty() || rng.chance(2, 3) {
            let (a, b) = *rng.pick(&[(0, 1), (0, 2), (0, 3), (2, 0), (2, 1), (3, -1), (-1, 2), (1, 0), (0, 4), (1, 2)]);
            v.push(match rng.below(5) {
                0 => Simple::NthChild(a, b),
                1 | 2 => Simple::NthOfType(a, b),
                3 => Simple::FirstOfType,
                _ => Simple::FirstChild,
            });
        }
        if rng.chance(1, 6) {
            v.push(Simple::Not(vec![Compound(vec![Simple::Type((*rng.pick(names)).to_string())])]));
        }
        Compound(v)
    };
    let n = if rng.chance(1, 6) { 2 } else { 1 };
    SelList(
        (0..n)
            .map(|_| {
                let first = comp(rng);
                let k = rng.below(3);
                let rest = (0..k).map(|_| (if rng.bool() { Comb::Child } else { Comb::Desc }, comp(rng))).collect();
                Complex { first, rest }
            })
            .collect(),
    )
}

pub fn gen_list(rng: &mut Rng) -> SelList {
    let n = if rng.chance(1, 5) { rng.range(2, 3) } else { 1 };
    SelList((0..n).map(|_| gen_complex(rng)).collect())
}

// ------------------------------------------------------------------------------------------
// reference matcher
// ------------------------------------------------------------------------------------------

fn is_ws(b: u8) -> bool {
    matches!(b, b' ' | b'\n' | b'\r' | b'\t' | b'\x0c')
}

fn eq_cs(a: &[u8], b: &[u8], ci: bool) -> bool {
    if ci {
        a.eq_ignore_ascii_case(b)
    } else {
        a == b
    }
}

fn attr_value<'a>(n: &'a Node, name: &str) -> Option<&'a [u8]> {
    let lname = name.to_ascii_lowercase();
    n.attrs.iter().find(|(k, _)| k.to_ascii_lowercase().as_bytes() == lname.as_bytes()).map(|(_, v)| v.as_slice())
}

/// `flat`: evaluate with lol-html's flattened-negation semantics (bug model for the known finding)
fn simple_matches(t: &Tree, idx: usize, s: &Simple, flat: bool, enc: &'static encoding_rs::Encoding) -> bool {
    let n = &t.nodes[idx];
    let encv = |v: &str| -> Vec<u8> { enc.encode(v).0.into_owned() };
    match s {
        Simple::Type(name) => n.name_lower == encv(&name.to_ascii_lowercase()),
        Simple::Universal => true,
        Simple::Ns { any: false, .. } => false,
        Simple::Ns { any: true, name: None } => true,
        Simple::Ns { any: true, name: Some(name) } => n.name_lower == encv(&name.to_ascii_lowercase()),
        Simple::Id(id) => attr_value(n, "id").map_or(false, |v| v == encv(id).as_slice()),
        Simple::Class(c) => attr_value(n, "class").map_or(false, |v| {
            let c = encv(c);
            v.split(|&b| is_ws(b)).any(|p| p == c.as_slice())
        }),
        Simple::AttrExists(name) => attr_value(n, name).is_some(),
        Simple::Attr { name, op, value, flag } => {
            let Some(v) = attr_value(n, name) else { return false };
            let ci = match flag {
                Flag::I => true,
                Flag::S => false,
                Flag::None => n.ns == Ns::Html && HTML_CI_ATTRS.contains(&name.to_ascii_lowercase().as_str()),
            };
            let val = encv(value);
            let val = val.as_slice();
            match op {
                AttrOp::Eq => eq_cs(v, val, ci),
                AttrOp::Includes => !val.is_empty() && !val.iter().any(|&b| is_ws(b)) && v.split(|&b| is_ws(b)).any(|p| eq_cs(p, val, ci)),
                AttrOp::Dash => eq_cs(v, val, ci) || (v.len() > val.len() && v[val.len()] == b'-' && eq_cs(&v[..val.len()], val, ci)),
                AttrOp::Prefix => !val.is_empty() && v.len() >= val.len() && eq_cs(&v[..val.len()], val, ci),
                AttrOp::Suffix => !val.is_empty() && v.len() >= val.len() && eq_cs(&v[v.len() - val.len()..], val, ci),
                AttrOp::Substr => !val.is_empty() && v.len() >= val.len() && v.windows(val.len()).any(|w| eq_cs(w, val, ci)),
            }
        }
        Simple::NthChild(a, b) => nth_has(*a, *b, n.child_index as i64),
        Simple::NthOfType(a, b) => nth_has(*a, *b, n.type_index as i64),
        Simple::FirstChild => n.child_index == 1,
        Simple::FirstOfType => n.type_index == 1,
        Simple::Not(list) => {
            if flat {
                flat_eval_list(t, idx, list, true, enc)
            } else {
                !list.iter().any(|c| compound_matches(t, idx, c, false, enc))
            }
        }
    }
}

/// lol-html's flattening: every simple selector below a negation is negated individually and all are conjoined
fn flat_eval_list(t: &Tree, idx: usize, list: &[Compound], neg: bool, enc: &'static encoding_rs::Encoding) -> bool {
    list.iter().all(|c| {
        c.0.iter().all(|s| match s {
            Simple::Not(inner) => flat_eval_list(t, idx, inner, !neg, enc),
            other => simple_matches(t, idx, other, true, enc) != neg,
        })
    })
}

fn nth_has(a: i32, b: i32, index: i64) -> bool {
    let (a, b) = (a as i64, b as i64);
    // exists n >= 0 : a*n + b == index
    if a == 0 {
        return index == b;
    }
    let d = index - b;
    d % a == 0 && d / a >= 0
}

pub fn compound_matches(t: &Tree, idx: usize, c: &Compound, flat: bool, enc: &'static encoding_rs::Encoding) -> bool {
    c.0.iter().all(|s| simple_matches(t, idx, s, flat, enc))
}

pub fn complex_matches(t: &Tree, idx: usize, c: &Complex, flat: bool, enc: &'static encoding_rs::Encoding) -> bool {
    // compounds in document order: first, rest[0], ...; the element must match the last one
    let mut comps: Vec<&Compound> = vec![&c.first];
    let mut combs: Vec<Comb> = vec![];
    for (k, comp) in &c.rest {
        combs.push(*k);
        comps.push(comp);
    }
    fn go(t: &Tree, idx: usize, i: usize, comps: &[&Compound], combs: &[Comb], flat: bool, enc: &'static encoding_rs::Encoding) -> bool {
        if !compound_matches(t, idx, comps[i], flat, enc) {
            return false;
        }
        if i == 0 {
            return true;
        }
        match combs[i - 1] {
            Comb::Child => match t.nodes[idx].parent {
                Some(p) => go(t, p, i - 1, comps, combs, flat, enc),
                None => false,
            },
            Comb::Desc => {
                let mut cur = t.nodes[idx].parent;
                while let Some(p) = cur {
                    if go(t, p, i - 1, comps, combs, flat, enc) {
                        return true;
                    }
                    cur = t.nodes[p].parent;
                }
                false
            }
        }
    }
    go(t, idx, comps.len() - 1, &comps, &combs, flat, enc)
}

pub fn list_matches(t: &Tree, idx: usize, l: &SelList, flat: bool, enc: &'static encoding_rs::Encoding) -> bool {
    l.0.iter().any(|c| complex_matches(t, idx, c, flat, enc))
}
