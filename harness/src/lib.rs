pub mod core;
pub mod engine;
pub mod gen;
pub mod props;
pub mod rng;
