//! RefTree: the tree that explicit tags induce, exactly as the C04 statement describes it.
//! push on start tag unless void (HTML namespace) or self-closing (foreign content); an end tag
//! closes the innermost open element of that name (ASCII case-insensitive) and everything above it;
//! an end tag without a matching open element is ignored.

use crate::refattr;
use crate::structgen::{Doc, Kind, Ns};

#[derive(Clone, Debug)]
pub struct Node {
    /// index of the start tag token in `Doc::toks`
    pub tok: usize,
    pub start: usize,
    pub end: usize,
    /// lowercased name bytes (raw bytes of the document, ASCII-lowercased)
    pub name_lower: Vec<u8>,
    pub ns: Ns,
    /// (name as written, raw value bytes), in source order, duplicates kept
    pub attrs: Vec<(String, Vec<u8>)>,
    pub parent: Option<usize>,
    /// 1-based index among the element children of the parent
    pub child_index: usize,
    /// 1-based index among the element children of the parent with the same name
    pub type_index: usize,
    pub self_closing: bool,
    /// void (HTML) or self-closing (foreign): never on the stack
    pub no_content: bool,
    /// token index of the end tag that closed this element (its own or an ancestor's), if any
    pub closed_by: Option<usize>,
    /// true if `closed_by` is the element's own end tag
    pub own_end_tag: bool,
}

#[derive(Clone, Debug, Default)]
pub struct Tree {
    pub nodes: Vec<Node>,
    /// for each token index: the stack of open nodes (innermost last) *before* the token is processed
    pub open_before: Vec<Vec<usize>>,
}

pub fn build(d: &Doc) -> Tree {
    let mut t = Tree::default();
    let mut stack: Vec<usize> = vec![];
    // per parent (None = root): element child count and per-name counts
    let mut root_children: Vec<Vec<u8>> = vec![];
    let mut children_of: Vec<Vec<Vec<u8>>> = vec![];
    for (ti, tok) in d.toks.iter().enumerate() {
        t.open_before.push(stack.clone());
        match &tok.kind {
            Kind::Start { ns, self_closing, void, .. } => {
                let bytes = &d.bytes[tok.start..tok.end];
                let p = refattr::parse_tag(bytes).expect("ground-truth start tag must parse");
                let name_lower: Vec<u8> = bytes[p.name.0..p.name.1].iter().map(|b| b.to_ascii_lowercase()).collect();
                let attrs = p
                    .attrs
                    .iter()
                    .map(|a| (String::from_utf8_lossy(&bytes[a.name.0..a.name.1]).into_owned(), bytes[a.value.0..a.value.1].to_vec()))
                    .collect();
                let parent = stack.last().copied();
                let sibs = match parent {
                    Some(pi) => &mut children_of[pi],
                    None => &mut root_children,
                };
                sibs.push(name_lower.clone());
                let child_index = sibs.len();
                let type_index = sibs.iter().filter(|n| **n == name_lower).count();
                let no_content = if *ns == Ns::Html { *void } else { *self_closing };
                let idx = t.nodes.len();
                t.nodes.push(Node { tok: ti, start: tok.start, end: tok.end, name_lower, ns: *ns, attrs, parent, child_index, type_index, self_closing: *self_closing, no_content, closed_by: None, own_end_tag: false });
                children_of.push(vec![]);
                if !no_content {
                    stack.push(idx);
                }
            }
            Kind::End { name } => {
                let lname: Vec<u8> = name.bytes().map(|b| b.to_ascii_lowercase()).collect();
                if let Some(pos) = stack.iter().rposition(|&i| t.nodes[i].name_lower == lname) {
                    for (k, &i) in stack[pos..].iter().enumerate() {
                        t.nodes[i].closed_by = Some(ti);
                        t.nodes[i].own_end_tag = k == 0;
                    }
                    stack.truncate(pos);
                }
            }
            _ => {}
        }
    }
    t
}

impl Tree {
    pub fn node_at(&self, start: usize) -> Option<usize> {
        self.nodes.iter().position(|n| n.start == start)
    }
}
