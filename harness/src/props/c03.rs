//! C03 Strict-mode tokenization equals the WHATWG parser's (html5ever differential).

use crate::core::{hex, show, unhex, Ctx, Prop, Tier, Violation};
use crate::engine::{self, Config, DocH, ElH, ErrKind, Rec};
use crate::gen::{self, SoupKind};
use crate::oracle::{decode_entities, html5ever_tokens, norm_text, HTok};
use crate::rng::{fnv, mix};
use crate::structgen;
use lol_html::errors::RewritingError;
use lol_html::html_content::DocumentEnd;
use lol_html::{LocalName, Namespace, SharedMemoryLimiter, StartTagHandlingResult, Token, TokenCaptureFlags, TransformController, TransformStream, TransformStreamSettings};
use serde_derive::{Deserialize, Serialize};
use serde_json::Value;
use std::cell::RefCell;
use std::panic::{catch_unwind, AssertUnwindSafe};
use std::rc::Rc;

pub struct C03;

#[derive(Clone, Debug, PartialEq, Eq)]
pub enum LTok {
    Doctype { name: Option<String>, public: Option<String>, system: Option<String>, force_quirks: bool },
    Start { name: String, attrs: Vec<(String, String)>, self_closing: bool },
    End { name: String },
    Comment(String),
    /// text chunk: (text, text type, last)
    Text(String, String, bool),
}

struct Ctl {
    flags: TokenCaptureFlags,
    toks: Rc<RefCell<Vec<LTok>>>,
}

impl TransformController for Ctl {
    fn initial_capture_flags(&self) -> TokenCaptureFlags {
        self.flags
    }
    fn handle_start_tag(&mut self, _: LocalName<'_>, _: Namespace) -> StartTagHandlingResult<Self> {
        Ok(self.flags)
    }
    fn handle_end_tag(&mut self, _: LocalName<'_>) -> TokenCaptureFlags {
        self.flags
    }
    fn handle_token(&mut self, token: &mut Token<'_>) -> Result<(), RewritingError> {
        let t = match token {
            Token::TextChunk(t) => LTok::Text(t.as_str().to_string(), format!("{:?}", t.text_type()), t.last_in_text_node()),
            Token::StartTag(t) => LTok::Start { name: t.name(), attrs: t.attributes().iter().map(|a| (a.name(), a.value())).collect(), self_closing: t.self_closing() },
            Token::EndTag(t) => LTok::End { name: t.name() },
            Token::Comment(c) => LTok::Comment(c.text()),
            Token::Doctype(d) => LTok::Doctype { name: d.name(), public: d.public_id(), system: d.system_id(), force_quirks: d.force_quirks() },
        };
        self.toks.borrow_mut().push(t);
        Ok(())
    }
    fn handle_end(&mut self, _: &mut DocumentEnd<'_>) -> Result<(), RewritingError> {
        Ok(())
    }
    fn should_emit_content(&self) -> bool {
        true
    }
}

pub enum LRes {
    Ok(Vec<LTok>, Vec<u8>),
    /// (bytes emitted before the refusal, name of the offending tag)
    Ambiguity(Vec<u8>, String),
    Other(String),
}

pub fn lol_tokens(input: &[u8], cuts: &[usize], flags: TokenCaptureFlags, strict: bool) -> LRes {
    lol_tokens_enc(input, cuts, flags, strict, encoding_rs::UTF_8)
}

pub fn merge_text_pub(v: Vec<HTok>) -> Vec<HTok> {
    merge_text(v)
}

pub fn lol_tokens_enc(input: &[u8], cuts: &[usize], flags: TokenCaptureFlags, strict: bool, enc: &'static encoding_rs::Encoding) -> LRes {
    let toks = Rc::new(RefCell::new(Vec::new()));
    let out = Rc::new(RefCell::new(Vec::new()));
    let out2 = out.clone();
    let r = catch_unwind(AssertUnwindSafe(|| {
        let mut ts = TransformStream::new(TransformStreamSettings {
            transform_controller: Ctl { flags, toks: toks.clone() },
            output_sink: move |c: &[u8]| out2.borrow_mut().extend_from_slice(c),
            preallocated_parsing_buffer_size: 0,
            memory_limiter: SharedMemoryLimiter::new(usize::MAX),
            encoding: lol_html::AsciiCompatibleEncoding::new(enc).expect("ascii compatible"),
            next_encoding: Default::default(),
            strict,
            graceful_bail_out_on_memory_limit_exceeded: false,
            graceful_bail_out_on_content_handler_error: false,
        });
        let mut pos = 0;
        let mut bounds: Vec<usize> = cuts.iter().copied().filter(|&c| c <= input.len()).collect();
        bounds.push(input.len());
        for b in bounds {
            let b = b.max(pos);
            ts.write(&input[pos..b])?;
            pos = b;
        }
        ts.end()
    }));
    match r {
        Ok(Ok(())) => {
            let t = toks.borrow().clone();
            let o = out.borrow().clone();
            LRes::Ok(t, o)
        }
        Ok(Err(RewritingError::ParsingAmbiguity(e))) => {
            let msg = e.to_string();
            let name = msg.split("(`<").nth(1).and_then(|r| r.split(">`)").next()).unwrap_or("").to_string();
            let o = out.borrow().clone();
            LRes::Ambiguity(o, name)
        }
        Ok(Err(e)) => LRes::Other(format!("{e:?}")),
        Err(p) => LRes::Other(format!("PANIC: {}", engine::panic_msg(&p))),
    }
}

/// lol-html tokens -> html5ever vocabulary (text nodes concatenated, entity-decoded per node)
pub fn to_htoks(l: &[LTok]) -> Result<Vec<HTok>, String> {
    let mut out: Vec<HTok> = vec![];
    let mut node = String::new();
    let mut node_tt: Option<String> = None;
    let mut flush_node = |node: &mut String, tt: &mut Option<String>, out: &mut Vec<HTok>| {
        if let Some(t) = tt.take() {
            let raw = norm_text(node);
            let txt = if t == "Data" || t == "RCData" { norm_text(&decode_entities(&raw, false)) } else { raw };
            node.clear();
            if txt.is_empty() {
                return;
            }
            if let Some(HTok::Text(last)) = out.last_mut() {
                last.push_str(&txt);
            } else {
                out.push(HTok::Text(txt));
            }
        }
    };
    for t in l {
        match t {
            LTok::Text(s, tt, last) => {
                if let Some(cur) = &node_tt {
                    if cur != tt {
                        return Err(format!("text type changes inside a text node: {cur} -> {tt}"));
                    }
                } else {
                    node_tt = Some(tt.clone());
                }
                node.push_str(s);
                if *last {
                    flush_node(&mut node, &mut node_tt, &mut out);
                }
            }
            other => {
                if node_tt.is_some() {
                    return Err("a non-text token arrived while a text node had no last_in_text_node chunk".into());
                }
                match other {
                    LTok::Start { name, attrs, self_closing } => {
                        let mut a2: Vec<(String, String)> = vec![];
                        for (k, v) in attrs {
                            let k = norm_text(k);
                            if !a2.iter().any(|(k2, _)| *k2 == k) {
                                a2.push((k, norm_text(&decode_entities(&norm_text(v), true))));
                            }
                        }
                        out.push(HTok::Start { name: norm_text(name), attrs: a2, self_closing: *self_closing });
                    }
                    LTok::End { name } => out.push(HTok::End { name: norm_text(name) }),
                    LTok::Comment(s) => out.push(HTok::Comment(norm_text(s))),
                    LTok::Doctype { name, public, system, force_quirks } => out.push(HTok::Doctype {
                        name: name.as_ref().map(|s| norm_text(s)),
                        public: public.as_ref().map(|s| norm_text(s)),
                        system: system.as_ref().map(|s| norm_text(s)),
                        force_quirks: *force_quirks,
                    }),
                    LTok::Text(..) => unreachable!(),
                }
            }
        }
    }
    if node_tt.is_some() {
        return Err("the last text node has no last_in_text_node chunk".into());
    }
    Ok(out)
}

pub fn norm_h(v: Vec<HTok>) -> Vec<HTok> {
    let mut out: Vec<HTok> = vec![];
    for t in v {
        let t = match t {
            HTok::Text(s) => HTok::Text(norm_text(&s)),
            HTok::Comment(s) => HTok::Comment(norm_text(&s)),
            HTok::Start { name, attrs, self_closing } => HTok::Start { name: name.to_ascii_lowercase(), attrs: attrs.into_iter().map(|(k, v)| (norm_text(&k), norm_text(&v))).collect(), self_closing },
            HTok::End { name } => HTok::End { name: name.to_ascii_lowercase() },
            HTok::Doctype { name, public, system, force_quirks } => HTok::Doctype { name: name.map(|s| norm_text(&s)), public: public.map(|s| norm_text(&s)), system: system.map(|s| norm_text(&s)), force_quirks },
        };
        if let (HTok::Text(s), Some(HTok::Text(last))) = (&t, out.last_mut()) {
            last.push_str(s);
            continue;
        }
        out.push(t);
    }
    out
}

fn filter(v: &[HTok], flags: TokenCaptureFlags) -> Vec<HTok> {
    let mut out: Vec<HTok> = vec![];
    for t in v {
        let keep = match t {
            HTok::Doctype { .. } => flags.contains(TokenCaptureFlags::DOCTYPES),
            HTok::Start { .. } => flags.contains(TokenCaptureFlags::NEXT_START_TAG),
            HTok::End { .. } => flags.contains(TokenCaptureFlags::NEXT_END_TAG),
            HTok::Comment(_) => flags.contains(TokenCaptureFlags::COMMENTS),
            HTok::Text(_) => flags.contains(TokenCaptureFlags::TEXT),
        };
        if keep {
            if let (HTok::Text(s), Some(HTok::Text(last))) = (t, out.last_mut()) {
                last.push_str(s);
                continue;
            }
            out.push(t.clone());
        }
    }
    out
}

fn merge_text(v: Vec<HTok>) -> Vec<HTok> {
    let mut out: Vec<HTok> = vec![];
    for t in v {
        if let (HTok::Text(s), Some(HTok::Text(last))) = (&t, out.last_mut()) {
            last.push_str(s);
            continue;
        }
        out.push(t);
    }
    out
}

#[derive(Clone, Debug, Serialize, Deserialize)]
pub struct Case3 {
    pub input_hex: String,
    pub cuts: Vec<usize>,
    pub domain: String,
}

#[derive(Default)]
pub struct Obs {
    pub ambiguity: bool,
    pub refusal_located: bool,
    pub oracle_panicked: bool,
    pub nontrivial: bool,
    pub tokens: usize,
}

const FLAG_SETS: &[(u8, &str)] = &[(0b11111, "all"), (0b00100, "start-tags"), (0b01000, "end-tags"), (0b00001, "text"), (0b00010, "comments"), (0b10000, "doctypes")];

#[derive(PartialEq, Clone, Copy)]
enum GuardSt {
    Default,
    InSelect,
    InTpl(usize),
    Frameset,
}

fn guard_step(st: GuardSt, t: &HTok) -> GuardSt {
    use GuardSt as St;
    match (st, t) {
        (St::Frameset, _) => St::Frameset,
        (St::Default, HTok::Start { name, .. }) if name == "select" => St::InSelect,
        (St::Default, HTok::Start { name, .. }) if name == "frameset" => St::Frameset,
        (St::InSelect, HTok::Start { name, .. }) if matches!(name.as_str(), "select" | "textarea" | "input" | "keygen") => St::Default,
        (St::InSelect, HTok::Start { name, .. }) if name == "template" => St::InTpl(1),
        (St::InSelect, HTok::End { name }) if name == "select" => St::Default,
        (St::InTpl(d), HTok::Start { name, .. }) if name == "template" => St::InTpl(d + 1),
        (St::InTpl(d), HTok::End { name }) if name == "template" => {
            if d == 1 {
                St::InSelect
            } else {
                St::InTpl(d - 1)
            }
        }
        (s, _) => s,
    }
}

/// independent model of the statement's "inside select (incl. template in select) or in/after frameset", over the
/// token stream html5ever produces for the prefix
pub fn syntactic_guard_context(prefix: &str) -> bool {
    let mut st = GuardSt::Default;
    for t in html5ever_tokens(prefix) {
        st = guard_step(st, &t);
    }
    st != GuardSt::Default
}

/// does a text-mode switching start tag (other than the ones that leave / are allowed in select) occur while the
/// syntactic model is inside select / template-in-select / after frameset?  (token names lower-cased)
fn switch_tag_in_guard_context(toks: &[HTok]) -> bool {
    let mut st = GuardSt::Default;
    for t in toks {
        if let HTok::Start { name, .. } = t {
            let n = name.to_ascii_lowercase();
            let exempt = (st == GuardSt::InSelect && matches!(n.as_str(), "script" | "textarea" | "select" | "input" | "keygen")) || (st == GuardSt::Frameset && n == "noframes");
            if st != GuardSt::Default && !exempt && gen::TEXT_MODE_NAMES.contains(&n.as_str()) {
                return true;
            }
        }
        st = guard_step(st, t);
    }
    false
}

pub fn check(input: &[u8], cuts: &[usize]) -> Result<Obs, (String, String)> {
    let _ = crate::oracle::take_oracle_panicked();
    let text = std::str::from_utf8(input).map_err(|_| ("harness".to_string(), "input not UTF-8".to_string()))?;
    let mut obs = Obs::default();
    let strict_all = lol_tokens(input, cuts, TokenCaptureFlags::all(), true);
    let lax_all = lol_tokens(input, cuts, TokenCaptureFlags::all(), false);
    let lower = text.to_ascii_lowercase();
    let ctx = || format!("\n input: {}\n cuts: {cuts:?}", show(input));
    let strict_toks = match strict_all {
        LRes::Other(e) => return Err(("unexpected-error".into(), format!("strict run failed with {e}{}", ctx()))),
        LRes::Ambiguity(emitted, on_tag) => {
            obs.ambiguity = true;
            // necessary condition from the statement: a select / frameset start tag precedes, and a text-mode
            // switching tag name occurs
            let has_ctx = lower.contains("<select") || lower.contains("<frameset") || lower.contains("<template");
            let has_switch = gen::TEXT_MODE_NAMES.iter().any(|n| lower.contains(&format!("<{n}")));
            if !(has_ctx && has_switch) {
                return Err(("unjustified-ambiguity".into(), format!("strict mode refused the input although it contains no select/frameset context with a text-mode switching start tag{}", ctx())));
            }
            // sufficient precision (added after a mutation that never left the guard's in-select state survived): the
            // offending tag is located through the bytes emitted before the refusal (C09: everything before the
            // unfinished tag is out), and the refusal is *unjustified* only if BOTH an independent syntactic model of
            // "inside select (incl. template in select) / after a frameset start tag" over html5ever's tokens AND
            // html5ever's tree builder itself (an unknown probe element appended at that point is inserted outside any
            // select) say the tag is not in such a context.
            let p = emitted.len();
            if p < input.len() && input[p] == b'<' && input.starts_with(&emitted) && !on_tag.is_empty() && lower[p + 1..].starts_with(&on_tag.to_ascii_lowercase()) {
                obs.refusal_located = true;
                let prefix = &text[..p];
                if !syntactic_guard_context(prefix) && crate::oracle::probe_context(prefix) == crate::oracle::ProbeCtx::Elsewhere {
                    return Err(("unjustified-ambiguity-at-tag".into(), format!("strict mode refused `<{on_tag}` at offset {p}, but neither the syntactic select/frameset model nor html5ever's tree builder place that tag inside select / template-in-select / after frameset{}", ctx())));
                }
            }
            None
        }
        LRes::Ok(t, out) => {
            if out != input {
                return Err(("output-differs".into(), format!("token capture run does not reproduce the input{}", ctx())));
            }
            Some(t)
        }
    };
    let lax_toks = match lax_all {
        LRes::Ok(t, _) => t,
        LRes::Ambiguity(..) => return Err(("ambiguity-nonstrict".into(), format!("non-strict run failed with ParsingAmbiguity{}", ctx()))),
        LRes::Other(e) => return Err(("unexpected-error".into(), format!("non-strict run failed with {e}{}", ctx()))),
    };
    let Some(strict_toks) = strict_toks else { return Ok(obs) };
    // a strict run that succeeds is identical to the non-strict run
    let s_h = to_htoks(&strict_toks).map_err(|e| ("token-protocol".to_string(), format!("{e}{}", ctx())))?;
    let l_h = to_htoks(&lax_toks).map_err(|e| ("token-protocol".to_string(), format!("{e}{}", ctx())))?;
    if s_h != l_h {
        return Err(("strict-differs-from-nonstrict".into(), format!("{}{}", crate::norm::first_diff(&s_h, &l_h), ctx())));
    }
    // "ambiguity is refused": a strict run must not succeed when a text-mode switching start tag sits inside select /
    // template-in-select / after a frameset start tag (syntactic model of the statement's parenthesis over the run's own
    // token stream; `script` in select and `noframes` after frameset are unambiguous). html5ever 0.39 cannot decide this
    // half: it implements the newer select content model in which such tags are never ignored.
    if switch_tag_in_guard_context(&norm_h(s_h.clone())) {
        return Err(("ambiguity-not-refused".into(), format!("the strict run succeeded although a text-mode switching start tag occurs inside select / template in select / after frameset{}", ctx())));
    }
    // the WHATWG oracle
    let oracle = norm_h(html5ever_tokens(text));
    if crate::oracle::take_oracle_panicked() {
        // html5ever itself panicked on this input: no opinion
        obs.oracle_panicked = true;
        return Ok(obs);
    }
    let mine = merge_text(s_h);
    if mine != oracle {
        return Err(("tokens-differ-from-whatwg".into(), format!("lol-html (A) vs html5ever (B): {}{}", crate::norm::first_diff(&mine, &oracle), ctx())));
    }
    obs.tokens = oracle.len();
    // each single capture kind
    for &(bits, name) in &FLAG_SETS[1..] {
        let flags = TokenCaptureFlags::from_bits_truncate(bits);
        match lol_tokens(input, cuts, flags, true) {
            LRes::Ok(t, out) => {
                if out != input {
                    return Err(("output-differs".into(), format!("capture set {name}: output differs{}", ctx())));
                }
                let h = merge_text(to_htoks(&t).map_err(|e| ("token-protocol".to_string(), format!("capture set {name}: {e}{}", ctx())))?);
                let exp = filter(&oracle, flags);
                if h != exp {
                    return Err(("tokens-differ-from-whatwg".into(), format!("capture set {name}: lol-html (A) vs html5ever (B): {}{}", crate::norm::first_diff(&h, &exp), ctx())));
                }
            }
            LRes::Ambiguity(..) => {
                // accepted artefact (DESIGN.md §6): the tag scanner consults the guard when a tag NAME is complete, the
                // lexer when the whole tag is; if the input ends inside that tag only the scanning run refuses.
                // Recognised exactly: completing the tag makes the capture-all run refuse too.
                let completes = [&b">"[..], b"\">", b"'>"].iter().any(|sfx| {
                    let mut i2 = input.to_vec();
                    i2.extend_from_slice(sfx);
                    matches!(lol_tokens(&i2, cuts, TokenCaptureFlags::all(), true), LRes::Ambiguity(..))
                });
                if !completes {
                    return Err(("result-differs".into(), format!("capture set {name} gives ParsingAmbiguity but capture-all succeeds{}", ctx())));
                }
            }
            LRes::Other(e) => return Err(("unexpected-error".into(), format!("capture set {name}: {e}{}", ctx()))),
        }
    }
    // through the public handlers: doctypes, comments, text from document handlers; start tags from '*'
    let cfg = Config { strict: true, el: vec![ElH { selector: "*".into(), element: true, ..Default::default() }], doc: vec![DocH { doctype: true, comments: true, text: true, end: true, ..Default::default() }], ..Default::default() };
    let r = engine::run(&cfg, input, cuts).map_err(|e| ("harness".to_string(), e))?;
    if r.ok() {
        let mut pub_toks: Vec<LTok> = vec![];
        for rec in &r.log {
            match rec {
                Rec::El(e) => pub_toks.push(LTok::Start { name: e.name.clone(), attrs: e.attrs.iter().map(|a| (a.name.clone(), a.value.clone())).collect(), self_closing: e.self_closing }),
                Rec::Comment { text, .. } => pub_toks.push(LTok::Comment(text.clone())),
                Rec::Doctype { name, public, system, .. } => pub_toks.push(LTok::Doctype { name: name.clone(), public: public.clone(), system: system.clone(), force_quirks: false }),
                Rec::Text { text, tt, last, .. } => pub_toks.push(LTok::Text(text.clone(), tt.clone(), *last)),
                _ => {}
            }
        }
        let h = merge_text(to_htoks(&pub_toks).map_err(|e| ("token-protocol".to_string(), format!("public handlers: {e}{}", ctx())))?);
        let exp: Vec<HTok> = filter(&oracle, TokenCaptureFlags::all() - TokenCaptureFlags::NEXT_END_TAG)
            .into_iter()
            .map(|t| match t {
                HTok::Doctype { name, public, system, .. } => HTok::Doctype { name, public, system, force_quirks: false },
                x => x,
            })
            .collect();
        if h != exp {
            return Err(("tokens-differ-from-whatwg".into(), format!("public handlers: lol-html (A) vs html5ever (B): {}{}", crate::norm::first_diff(&h, &exp), ctx())));
        }
    } else if !matches!(r.final_res(), crate::engine::Res::Err(ErrKind::Ambiguity)) {
        return Err(("unexpected-error".into(), format!("public-handler run failed: {:?}{}", r.final_res(), ctx())));
    }
    let has_special = gen::TEXT_MODE_NAMES.iter().any(|n| lower.contains(&format!("<{n}"))) || lower.contains("<!") || lower.contains("<svg") || lower.contains("<math") || lower.contains("<?") || lower.contains("</");
    obs.nontrivial = has_special;
    Ok(obs)
}

/// "template" -> "templatx", ASCII case-insensitively, preserving case of the other letters
fn untemplate(b: &[u8]) -> Vec<u8> {
    let mut v = b.to_vec();
    let pat = b"template";
    let mut i = 0;
    while i + pat.len() <= v.len() {
        if v[i..i + pat.len()].eq_ignore_ascii_case(pat) {
            let last = i + pat.len() - 1;
            v[last] = if v[last] == b'E' { b'X' } else { b'x' };
            i += pat.len();
        } else {
            i += 1;
        }
    }
    v
}

fn untemplate_tok(t: HTok) -> HTok {
    let f = |s: String| String::from_utf8(untemplate(s.as_bytes())).unwrap();
    match t {
        HTok::Text(s) => HTok::Text(f(s)),
        HTok::Comment(s) => HTok::Comment(f(s)),
        HTok::Start { name, attrs, self_closing } => HTok::Start { name: f(name), attrs: attrs.into_iter().map(|(k, v)| (f(k), f(v))).collect(), self_closing },
        HTok::End { name } => HTok::End { name: f(name) },
        HTok::Doctype { name, public, system, force_quirks } => HTok::Doctype { name: name.map(&f), public: public.map(&f), system: system.map(&f), force_quirks },
    }
}

/// Bug model for the known finding "template insertion modes are not simulated": lol-html's strict token stream
/// equals what the WHATWG parser produces when <template> is an ordinary element.
pub fn refine_key(key: &str, input: &[u8], cuts: &[usize]) -> String {
    if key != "tokens-differ-from-whatwg" {
        return key.to_string();
    }
    let Ok(text) = std::str::from_utf8(input) else { return key.to_string() };
    if !text.to_ascii_lowercase().contains("<template") {
        return key.to_string();
    }
    let LRes::Ok(toks, _) = lol_tokens(input, cuts, TokenCaptureFlags::all(), true) else { return key.to_string() };
    let Ok(h) = to_htoks(&toks) else { return key.to_string() };
    // the finding is about templates *outside* select: a run that let a text-mode switching tag through while the
    // syntactic model is inside select / template-in-select is a different defect and keeps the generic key
    if switch_tag_in_guard_context(&norm_h(h.clone())) {
        return key.to_string();
    }
    let mine: Vec<HTok> = merge_text(h).into_iter().map(untemplate_tok).collect();
    let input2 = untemplate(input);
    let Ok(text2) = std::str::from_utf8(&input2) else { return key.to_string() };
    let oracle2 = norm_h(html5ever_tokens(text2));
    if crate::oracle::take_oracle_panicked() {
        return key.to_string();
    }
    if mine == oracle2 {
        "template-insertion-modes-not-simulated".to_string()
    } else {
        key.to_string()
    }
}

impl Prop for C03 {
    fn id(&self) -> &'static str {
        "C03"
    }
    fn rule(&self) -> String {
        "differential against html5ever 0.39 (tokenizer driven by its tree builder): domain A = adversarial tag soup without svg/math (biased to text-mode elements, select/template/frameset/table, truncated constructs, case variants), domain B = well-nested foreign-content grammar (CDATA, self-closing, integration points with HTML inside, annotation-xml, font); random write schedules; the strict run with capture set 'all', each single capture kind, the non-strict run and the public handlers are each compared; refusals are checked against the necessary condition of the statement; non-trivial: the strict run succeeded and the document contains a text-mode element, comment/doctype/CDATA/end-tag construct or a foreign island; distinct = hash(input, schedule)".into()
    }
    fn assumptions(&self) -> Vec<String> {
        vec![
            "html5ever 0.39 is the reference for the WHATWG tokenizer + tree builder feedback".into(),
            "UTF-8 inputs only; names lower-cased, duplicate attributes dropped (first wins), character references decoded per text node / attribute value on lol-html's raw strings, NUL and U+FFFD identified, CR/CRLF -> LF on both sides".into(),
        ]
    }
    fn run_shard(&self, ctx: &mut Ctx<'_>) {
        let n = ctx.budget(200_000, 20_000_000);
        for i in 0..n {
            if i % 32 == 0 && ctx.should_stop() {
                break;
            }
            let domain_b = i % 3 == 0;
            let input = if domain_b {
                let o = structgen::Opts { foreign: true, max_nodes: 14, esi: false, ..Default::default() };
                let mut d = structgen::gen_doc(&mut ctx.rng, &o);
                if ctx.rng.chance(1, 10) && !d.bytes.is_empty() {
                    // EOF inside a construct
                    let at = ctx.rng.below(d.bytes.len());
                    d.bytes.truncate(at);
                    // keep valid UTF-8
                    while std::str::from_utf8(&d.bytes).is_err() {
                        d.bytes.pop();
                    }
                }
                d.bytes
            } else if i % 8 == 1 {
                if ctx.rng.bool() { gen::guard_soup(&mut ctx.rng) } else { gen::guard_walk(&mut ctx.rng) }
            } else {
                let mut v = gen::soup(&mut ctx.rng, 24, SoupKind::HtmlOnly, false);
                if ctx.rng.chance(1, 12) {
                    let s = String::from_utf8_lossy(&v).into_owned();
                    v = s.into_bytes();
                    gen::mutate(&mut ctx.rng, &mut v);
                    v = String::from_utf8_lossy(&v).into_owned().into_bytes();
                    gen::strip_foreign(&mut v);
                }
                v
            };
            if std::str::from_utf8(&input).is_err() {
                continue;
            }
            let cuts = gen::random_cuts(&mut ctx.rng, input.len());
            // a cut must not split a UTF-8 character for the html5ever comparison? No: lol-html handles raw bytes; fine.
            ctx.eval();
            match check(&input, &cuts) {
                Ok(o) => {
                    if o.oracle_panicked {
                        ctx.count("html5ever_panicked_no_opinion");
                    }
                    if o.ambiguity {
                        ctx.count("strict_refusals");
                        if o.refusal_located {
                            ctx.count("strict_refusals_located_and_justified");
                        }
                    } else {
                        ctx.count("strict_successes");
                        ctx.add("tokens_compared", o.tokens as u64);
                    }
                    ctx.count(if domain_b { "domain_B_docs" } else { "domain_A_docs" });
                    if o.nontrivial && !o.ambiguity {
                        ctx.nontrivial(mix(fnv(&input), fnv(format!("{cuts:?}").as_bytes())));
                        ctx.sample(|| serde_json::json!({"input": show(&input), "cuts": cuts, "domain": if domain_b {"B"} else {"A"}}));
                    }
                }
                Err((key, msg)) => {
                    if key == "harness" {
                        panic!("{msg}");
                    }
                    let key0 = refine_key(&key, &input, &cuts);
                    if ctx.is_known(&key0) {
                        ctx.violation(Violation { key: key0, msg, case: serde_json::to_value(&Case3 { input_hex: hex(&input), cuts: cuts.clone(), domain: String::new() }).unwrap() });
                        continue;
                    }
                    let k2 = key.clone();
                    // domain B inputs are not shrunk: deleting spans would leave the well-nested domain
                    let (i2, c2) = if domain_b { (input.clone(), cuts.clone()) } else { crate::core::shrink_input(&input, &cuts, &mut |i, c| std::str::from_utf8(i).is_ok() && matches!(check(i, c), Err((k, _)) if k == k2)) };
                    let msg = match check(&i2, &c2) {
                        Err((_, m)) => m,
                        _ => msg,
                    };
                    let key = refine_key(&key, &i2, &c2);
                    let case = Case3 { input_hex: hex(&i2), cuts: c2, domain: if domain_b { "B".into() } else { "A".into() } };
                    if !ctx.violation(Violation { key, msg, case: serde_json::to_value(&case).unwrap() }) {
                        return;
                    }
                }
            }
        }
    }
    fn replay(&self, case: &Value) -> Result<Vec<Violation>, String> {
        let c: Case3 = serde_json::from_value(case.clone()).map_err(|e| e.to_string())?;
        match check(&unhex(&c.input_hex), &c.cuts) {
            Ok(_) => Ok(vec![]),
            Err((key, msg)) => {
                let key = refine_key(&key, &unhex(&c.input_hex), &c.cuts);
                Ok(vec![Violation { key, msg, case: case.clone() }])
            }
        }
    }
    fn watchdog_s(&self, tier: Tier) -> u64 {
        tier.pick(400, 3000)
    }
}
