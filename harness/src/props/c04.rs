//! C04 Selector matching agrees with CSS selector semantics on every document.

use crate::core::{hex, show, unhex, Ctx, Prop, Tier, Violation};
use crate::engine::{self, Config, ElH, Rec, Res};
use crate::gen;
use crate::reftree;
use crate::rng::{fnv, mix};
use crate::selgen::{self, SelList};
use crate::structgen::{self, Doc};
use serde_derive::{Deserialize, Serialize};
use serde_json::Value;
use std::collections::BTreeSet;

pub struct C04;

#[derive(Clone, Debug, Serialize, Deserialize)]
pub struct Case4 {
    pub sels: Vec<SelList>,
    pub doc_hex: String,
    /// token table of the generated document (start, end, kind) is regenerated from the seed-free document
    /// description below, so that a replay needs nothing but this file
    pub doc: DocDesc,
    pub cuts: Vec<usize>,
    pub esi: bool,
}

/// serialisable ground truth
#[derive(Clone, Debug, Serialize, Deserialize)]
pub struct DocDesc {
    pub toks: Vec<(usize, usize, String, String, bool, bool)>,
}

pub fn describe(d: &Doc) -> DocDesc {
    use structgen::Kind;
    DocDesc {
        toks: d
            .toks
            .iter()
            .map(|t| match &t.kind {
                Kind::Start { name, ns, self_closing, void } => (t.start, t.end, format!("S:{ns:?}"), name.clone(), *self_closing, *void),
                Kind::End { name } => (t.start, t.end, "E".into(), name.clone(), false, false),
                Kind::Text { tt } => (t.start, t.end, "T".into(), (*tt).to_string(), false, false),
                Kind::Comment { text } => (t.start, t.end, "C".into(), format!("{},{}", text.0, text.1), false, false),
                Kind::Doctype { .. } => (t.start, t.end, "D".into(), String::new(), false, false),
                Kind::CdataMarker => (t.start, t.end, "M".into(), String::new(), false, false),
            })
            .collect(),
    }
}

pub fn undescribe(bytes: Vec<u8>, d: &DocDesc) -> Doc {
    use structgen::{Kind, Ns, Tok};
    let toks = d
        .toks
        .iter()
        .map(|(s, e, k, name, sc, void)| {
            let kind = match k.as_str() {
                "S:Html" => Kind::Start { name: name.clone(), ns: Ns::Html, self_closing: *sc, void: *void },
                "S:Svg" => Kind::Start { name: name.clone(), ns: Ns::Svg, self_closing: *sc, void: *void },
                "S:MathMl" => Kind::Start { name: name.clone(), ns: Ns::MathMl, self_closing: *sc, void: *void },
                "E" => Kind::End { name: name.clone() },
                "T" => Kind::Text {
                    tt: match name.as_str() {
                        "Data" => "Data",
                        "RCData" => "RCData",
                        "RawText" => "RawText",
                        "ScriptData" => "ScriptData",
                        "PlainText" => "PlainText",
                        _ => "CDataSection",
                    },
                },
                "C" => {
                    let mut it = name.split(',');
                    let a: usize = it.next().unwrap().parse().unwrap();
                    let b: usize = it.next().unwrap().parse().unwrap();
                    Kind::Comment { text: (a, b) }
                }
                "D" => Kind::Doctype { name: None, public: None, system: None },
                _ => Kind::CdataMarker,
            };
            Tok { start: *s, end: *e, kind }
        })
        .collect();
    Doc { bytes, toks }
}

pub struct Obs {
    pub predicted_matches: usize,
    pub predicted_nonmatches: usize,
    pub interesting: bool,
}

fn expected(tree: &reftree::Tree, sels: &[SelList], flat: bool) -> BTreeSet<(usize, usize)> {
    let mut s = BTreeSet::new();
    for (i, sel) in sels.iter().enumerate() {
        for (ni, n) in tree.nodes.iter().enumerate() {
            if selgen::list_matches(tree, ni, sel, flat, encoding_rs::UTF_8) {
                s.insert((i, n.start));
            }
        }
    }
    s
}

fn run_set(sels: &[String], doc: &Doc, cuts: &[usize], esi: bool) -> Result<BTreeSet<(usize, usize)>, (String, String)> {
    let cfg = Config { esi, el: sels.iter().map(|s| ElH { selector: s.clone(), element: true, ..Default::default() }).collect(), ..Default::default() };
    let r = engine::run(&cfg, &doc.bytes, cuts).map_err(|e| ("selector-rejected".to_string(), format!("a selector from the supported grammar was rejected: {e}")))?;
    match r.final_res() {
        Res::Ok => {}
        other => return Err(("unexpected-result".into(), format!("run failed: {other:?}\n doc: {}", show(&doc.bytes)))),
    }
    let mut got = BTreeSet::new();
    for rec in &r.log {
        if let Rec::El(e) = rec {
            if !got.insert((e.hid, e.start)) {
                return Err(("handler-ran-twice".into(), format!("element handler {} ran twice for the start tag at byte {}\n doc: {}", e.hid, e.start, show(&doc.bytes))));
            }
        }
    }
    Ok(got)
}

pub fn check(c: &Case4, doc: &Doc) -> Result<Obs, (String, String)> {
    let tree = reftree::build(doc);
    let css: Vec<String> = c.sels.iter().map(|s| s.css()).collect();
    let exp = expected(&tree, &c.sels, false);
    let got = run_set(&css, doc, &c.cuts, c.esi)?;
    let describe_diff = |got: &BTreeSet<(usize, usize)>, exp: &BTreeSet<(usize, usize)>| {
        let mut s = String::new();
        for (i, st) in got.difference(exp).take(4) {
            let n = tree.node_at(*st).map(|k| &tree.nodes[k]);
            s.push_str(&format!("\n   handler ran but the selector does not match: selector {:?} at byte {} tag {}", css[*i], st, n.map_or("?".to_string(), |n| show(&doc.bytes[n.start..n.end]))));
        }
        for (i, st) in exp.difference(got).take(4) {
            let n = tree.node_at(*st).map(|k| &tree.nodes[k]);
            s.push_str(&format!("\n   selector matches but the handler did not run: selector {:?} at byte {} tag {}", css[*i], st, n.map_or("?".to_string(), |n| show(&doc.bytes[n.start..n.end]))));
        }
        s
    };
    if got != exp {
        let flat = expected(&tree, &c.sels, true);
        let key = if got == flat && c.sels.iter().any(|s| s.has_compound_or_nested_not()) { "negation-flattened" } else { "selector-match-set-differs" };
        return Err((key.into(), format!("selectors {css:?}, cuts {:?}:{}\n doc: {}", c.cuts, describe_diff(&got, &exp), show(&doc.bytes))));
    }
    // independence from the other registered selectors: each selector alone
    if css.len() > 1 {
        for (i, s) in css.iter().enumerate() {
            // large sets: a spread sample of the selectors is re-run alone
            if css.len() > 12 && i % (css.len() / 6) != 0 {
                continue;
            }
            let alone = run_set(std::slice::from_ref(s), doc, &c.cuts, c.esi)?;
            let in_set: BTreeSet<(usize, usize)> = got.iter().filter(|(h, _)| *h == i).map(|(_, st)| (0, *st)).collect();
            if alone != in_set {
                return Err(("matches-depend-on-other-selectors".into(), format!("selector {s:?} matches differently alone than among {css:?}\n doc: {}", show(&doc.bytes))));
            }
        }
    }
    let total = c.sels.len() * tree.nodes.len();
    Ok(Obs { predicted_matches: exp.len(), predicted_nonmatches: total - exp.len(), interesting: c.sels.iter().any(|s| s.0.iter().any(|c| c.uses_interesting())) })
}

impl Prop for C04 {
    fn id(&self) -> &'static str {
        "C04"
    }
    fn rule(&self) -> String {
        "1-6 (1 case in 40: 40-160) selector lists generated from an AST over the full supported grammar (type, *, #id, .class, six attribute operators with i/s/no flag incl. empty and whitespace operands, :nth-child/:nth-of-type/:first-*, :not() with simple/compound/list/nested arguments, child and descendant combinators, lists) x generated documents with ground truth (mis-nested and stray end tags, voids, case variants, duplicate attributes, foreign self-closing, integration points, esi tags) x write schedules; the set of (selector, start tag) pairs for which the element handler ran is compared with the reference matcher on the reference tree, and every selector is also run alone; non-trivial: >= 1 predicted match and >= 1 predicted non-match and a selector that uses a combinator / attribute / nth / :not; distinct = hash(selectors, document, schedule)".into()
    }
    fn assumptions(&self) -> Vec<String> {
        vec![
            "attribute values are compared raw (undecoded), as lol-html documents; the HTML list of case-insensitive attribute values applies to HTML-namespace elements without a flag".into(),
            "the reference tree is the one the C04 statement defines (explicit tags only)".into(),
        ]
    }
    fn run_shard(&self, ctx: &mut Ctx<'_>) {
        let n = ctx.budget(120_000, 15_000_000);
        for i in 0..n {
            if i % 32 == 0 && ctx.should_stop() {
                break;
            }
            let esi = ctx.rng.chance(1, 10);
            // "dense" mode: few names, deep mis-nested structure, structural selectors (sibling counters after stack unwinding)
            let dense = ctx.rng.chance(2, 5);
            const DENSE_NAMES: &[&str] = &["div", "span", "p", "b"];
            let o = if dense {
                structgen::Opts { foreign: ctx.rng.chance(1, 4), max_nodes: 40, max_depth: 9, esi: false, nonascii: false, plaintext: false, text_mode: false, comments: false, doctype: false, weird_attrs: false, names: Some(DENSE_NAMES), close_percent: *ctx.rng.pick(&[30usize, 50, 70]), ..Default::default() }
            } else {
                structgen::Opts { foreign: ctx.rng.chance(2, 3), max_nodes: 16, esi, nonascii: ctx.rng.chance(1, 3), plaintext: false, text_mode: ctx.rng.bool(), ..Default::default() }
            };
            let doc = structgen::gen_doc(&mut ctx.rng, &o);
            // 1 in 40: a large selector set (match-id bit sets grow past their first words; added after a seeded
            // change that truncated the set union beyond 64 selectors was missed)
            let many = ctx.rng.chance(1, 40);
            let nsel = if many {
                ctx.count("large_selector_sets");
                ctx.rng.range(40, 160)
            } else {
                match ctx.rng.below(4) {
                    0 => 1,
                    1 => 2,
                    _ => ctx.rng.range(1, 6),
                }
            };
            let sels: Vec<SelList> = (0..nsel).map(|_| if dense && !ctx.rng.chance(1, 4) { selgen::gen_structural(&mut ctx.rng, DENSE_NAMES) } else { selgen::gen_list(&mut ctx.rng) }).collect();
            if dense {
                ctx.count("dense_structure_cases");
            }
            let cuts = gen::random_cuts(&mut ctx.rng, doc.bytes.len());
            let case = Case4 { sels, doc_hex: hex(&doc.bytes), doc: describe(&doc), cuts, esi };
            ctx.eval();
            match check(&case, &doc) {
                Ok(o) => {
                    ctx.add("predicted_matches", o.predicted_matches as u64);
                    ctx.add("predicted_nonmatches", o.predicted_nonmatches as u64);
                    if o.predicted_matches > 0 && o.predicted_nonmatches > 0 && o.interesting {
                        ctx.nontrivial(mix(fnv(&doc.bytes), fnv(format!("{:?}{:?}", case.sels, case.cuts).as_bytes())));
                        ctx.sample(|| serde_json::json!({"selectors": case.sels.iter().map(|s| s.css()).collect::<Vec<_>>(), "doc": show(&doc.bytes), "cuts": case.cuts}));
                    }
                }
                Err((key, msg)) => {
                    if ctx.is_known(&key) {
                        ctx.violation(Violation { key, msg, case: serde_json::to_value(&case).unwrap() });
                        continue;
                    }
                    // shrink: drop selectors, then drop cuts
                    let mut best = case.clone();
                    let mut bmsg = msg;
                    loop {
                        let mut improved = false;
                        for k in 0..best.sels.len() {
                            if best.sels.len() == 1 {
                                break;
                            }
                            let mut c2 = best.clone();
                            c2.sels.remove(k);
                            if let Err((k2, m2)) = check(&c2, &doc) {
                                if k2 == key {
                                    best = c2;
                                    bmsg = m2;
                                    improved = true;
                                    break;
                                }
                            }
                        }
                        if !improved {
                            break;
                        }
                    }
                    if !best.cuts.is_empty() {
                        let mut c2 = best.clone();
                        c2.cuts.clear();
                        if let Err((k2, m2)) = check(&c2, &doc) {
                            if k2 == key {
                                best = c2;
                                bmsg = m2;
                            }
                        }
                    }
                    if !ctx.violation(Violation { key, msg: bmsg, case: serde_json::to_value(&best).unwrap() }) {
                        return;
                    }
                }
            }
        }
    }
    fn replay(&self, case: &Value) -> Result<Vec<Violation>, String> {
        let c: Case4 = serde_json::from_value(case.clone()).map_err(|e| e.to_string())?;
        let doc = undescribe(unhex(&c.doc_hex), &c.doc);
        match check(&c, &doc) {
            Ok(_) => Ok(vec![]),
            Err((key, msg)) => Ok(vec![Violation { key, msg, case: case.clone() }]),
        }
    }
    fn watchdog_s(&self, tier: Tier) -> u64 {
        tier.pick(400, 3000)
    }
}
