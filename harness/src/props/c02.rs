//! C02 Chunk-boundary invariance of output and of everything handlers observe.

use super::Case;
use crate::core::{show, Ctx, Prop, Tier, Violation};
use crate::engine::{self, Config, Res};
use crate::gen::{self, SoupKind};
use crate::mutgen;
use crate::norm::{self, NEv};
use crate::rng::{fnv, mix, Rng};
use serde_json::Value;

pub struct C02;

pub fn cut_class(input: &[u8], c: usize) -> &'static str {
    if c == 0 || c >= input.len() {
        return "edge";
    }
    let before = &input[..c];
    let next = input[c];
    if (0x80..0xc0).contains(&next) {
        return "inside-multibyte-char";
    }
    if before.ends_with(b"<!-") && next == b'-' {
        return "<!-|-";
    }
    if before.ends_with(b"-") && next == b'-' {
        return "-|-";
    }
    if before.ends_with(b"--") && next == b'>' {
        return "--|>";
    }
    if before.ends_with(b"]") && (next == b']' || next == b'>') {
        return "]|]>";
    }
    if before.ends_with(b"</") {
        return "</|";
    }
    if before.ends_with(b"<!") {
        return "<!|";
    }
    if before.ends_with(b"<") {
        return "<|";
    }
    if before.ends_with(b"=") {
        return "=|";
    }
    let lower: Vec<u8> = before.iter().rev().take(12).rev().map(|b| b.to_ascii_lowercase()).collect();
    for (pat, name) in [(&b"doctyp"[..], "DOCTYP|E"), (&b"</scrip"[..], "</scrip|t"), (&b"<![cdat"[..], "<![CDAT|A"), (&b"publi"[..], "PUBLI|C")] {
        for k in 2..=pat.len() {
            if lower.ends_with(&pat[..k]) {
                return name;
            }
        }
    }
    let p = before[c - 1];
    if p.is_ascii_alphanumeric() && next.is_ascii_alphanumeric() {
        return "inside-word";
    }
    if p == b'"' || p == b'\'' || next == b'"' || next == b'\'' {
        return "at-quote";
    }
    if p == b'&' || p == b'#' {
        return "inside-entity";
    }
    if p == b'\r' && next == b'\n' {
        return "CR|LF";
    }
    "other"
}

pub struct Canon {
    pub res: Res,
    pub out: Vec<u8>,
    pub events: Vec<NEv>,
    pub invocations: usize,
}

pub fn canon(cfg: &Config, input: &[u8], cuts: &[usize]) -> Result<Canon, (String, String)> {
    let r = engine::run(cfg, input, cuts).map_err(|e| ("harness".to_string(), e))?;
    let (events, info) = norm::normalise(&r, &norm::all);
    if let Res::Panic(m) = r.final_res() {
        return Err(("panic".into(), format!("panic: {m} (cuts {cuts:?})\n input: {}", show(input))));
    }
    if !info.problems.is_empty() {
        return Err(("text-node-protocol".into(), format!("{} (cuts {cuts:?})\n input: {}", info.problems.join("; "), show(input))));
    }
    if r.ok() {
        if let Some(NEv::OpenText { hid, .. }) = events.iter().find(|e| matches!(e, NEv::OpenText { .. })) {
            return Err(("text-node-without-last".into(), format!("handler {hid}: a text node never received its last_in_text_node chunk (cuts {cuts:?})\n input: {}", show(input))));
        }
    }
    Ok(Canon { res: r.final_res(), out: r.out(), events, invocations: r.invocations })
}

pub fn compare(cfg: &Config, input: &[u8], a: &Canon, cuts: &[usize]) -> Result<(), (String, String)> {
    let b = canon(cfg, input, cuts)?;
    let kind = |r: &Res| match r {
        Res::Ok => "ok".to_string(),
        Res::Err(k) => format!("{k:?}"),
        Res::Panic(_) => "panic".into(),
    };
    if kind(&a.res) != kind(&b.res) {
        return Err(("result-differs".into(), format!("single write gives {:?}, schedule {cuts:?} gives {:?}\n input: {}", a.res, b.res, show(input))));
    }
    if a.res == Res::Ok {
        if a.out != b.out {
            return Err((
                "output-differs".into(),
                format!("output depends on the write schedule {cuts:?}\n input:        {}\n single write: {}\n this schedule:{}", show(input), show(&a.out), show(&b.out)),
            ));
        }
        if a.events != b.events {
            return Err(("events-differ".into(), format!("handler-visible events depend on the write schedule {cuts:?}: {}\n input: {}", norm::first_diff(&a.events, &b.events), show(input))));
        }
    } else {
        // on failure the events delivered before the failing point must still agree (open text may be shorter)
        let strip = |v: &[NEv]| -> Vec<NEv> { v.iter().filter(|e| !matches!(e, NEv::OpenText { .. })).cloned().collect() };
        if strip(&a.events) != strip(&b.events) {
            return Err(("events-differ-before-error".into(), format!("events before the error depend on the schedule {cuts:?}: {}\n input: {}", norm::first_diff(&strip(&a.events), &strip(&b.events)), show(input))));
        }
    }
    Ok(())
}

fn gen_cfg(rng: &mut Rng, enc: &'static encoding_rs::Encoding) -> Config {
    let mut cfg = Config { encoding: enc.name().to_string(), strict: rng.chance(1, 4), send: rng.chance(1, 10), esi: rng.chance(1, 10), ..Default::default() };
    gen::observer_config(rng, &mut cfg);
    if cfg.el.is_empty() && cfg.doc.is_empty() {
        cfg.doc.push(crate::engine::DocH { text: true, comments: true, doctype: true, end: true, ..Default::default() });
    }
    cfg
}

pub fn check_str(cfg: &Config, input: &[u8], a: &Canon) -> Result<bool, (String, String)> {
    if cfg.enc() != encoding_rs::UTF_8 || cfg.adjust_charset {
        return Ok(false);
    }
    let Ok(s) = std::str::from_utf8(input) else { return Ok(false) };
    let (res, rr) = engine::run_str(cfg, s).map_err(|e| ("harness".to_string(), e))?;
    let (events, _) = norm::normalise(&rr, &norm::all);
    match (&a.res, res) {
        (Res::Ok, Ok(out)) => {
            if out.as_bytes() != &a.out[..] {
                return Err(("rewrite_str-differs".into(), format!("rewrite_str output differs from a single write\n input: {}\n write: {}\n rewrite_str: {}", show(input), show(&a.out), show(out.as_bytes()))));
            }
            if events != a.events {
                return Err(("rewrite_str-events-differ".into(), format!("rewrite_str events differ: {}\n input: {}", norm::first_diff(&a.events, &events), show(input))));
            }
        }
        (Res::Err(_), Err(_)) => {}
        (x, y) => {
            return Err(("rewrite_str-result-differs".into(), format!("single write gives {x:?} but rewrite_str gives {:?}\n input: {}", y.map(|_| "Ok"), show(input))));
        }
    }
    Ok(true)
}

impl Prop for C02 {
    fn id(&self) -> &'static str {
        "C02"
    }
    fn rule(&self) -> String {
        "relational: for a fixed (input, encoding, handler set incl. mutating op scripts keyed by token offset) the single-write run is compared with other schedules (all 1-cuts, all 2-cuts for inputs <= 40 bytes, byte-wise, random k-cuts with empty writes) and with rewrite_str; a (case, schedule) pair is non-trivial when the schedule cuts strictly inside the input and the canonical run invoked at least one handler; distinct = hash(input, config, schedule)".into()
    }
    fn assumptions(&self) -> Vec<String> {
        vec!["source locations are not part of the compared payload (C14 owns them); text chunks of a node are concatenated before comparison".into()]
    }
    fn run_shard(&self, ctx: &mut Ctx<'_>) {
        let n = ctx.budget(60_000, 1_500_000);
        let encs = gen::ascii_compatible_encodings();
        let two_cut_limit = 40;
        for i in 0..n {
            if i % 16 == 0 && ctx.should_stop() {
                break;
            }
            let enc = if ctx.rng.chance(2, 3) { encoding_rs::UTF_8 } else { *ctx.rng.pick(&encs) };
            let mut cfg = gen_cfg(&mut ctx.rng, enc);
            let small = ctx.rng.chance(1, 3);
            let rawb = ctx.rng.chance(1, 6);
            let mut input = gen::soup(&mut ctx.rng, if small { 6 } else { 25 }, SoupKind::Any, rawb);
            if enc != encoding_rs::UTF_8 && ctx.rng.bool() {
                let s = String::from_utf8_lossy(&input).into_owned();
                input = enc.encode(&s).0.into_owned();
            }
            let long_tokens = i % 250 == 5;
            if long_tokens {
                // 3-12 KiB tokens that stay buffered over several writes (seeded C01-m5: schedule-dependent loss of buffered bytes)
                input = crate::props::c01::gen_long_tokens(&mut ctx.rng);
                ctx.count("long_token_documents");
            }
            let mutating = ctx.rng.bool() && !long_tokens;
            if mutating {
                if let Ok(dry) = engine::run(&cfg, &input, &[]) {
                    mutgen::script_from_dry_run(&mut ctx.rng, &mut cfg, &dry, 3);
                }
            }
            let a = match canon(&cfg, &input, &[]) {
                Ok(a) => a,
                Err((k, m)) => {
                    if k == "harness" {
                        panic!("{m}");
                    }
                    if !ctx.violation(Violation { key: k, msg: m, case: Case::new(&cfg, &input, &[]).to_value() }) {
                        return;
                    }
                    continue;
                }
            };
            ctx.eval();
            let mut schedules: Vec<Vec<usize>> = vec![];
            let len = input.len();
            if len <= 300 {
                for c in 1..len {
                    schedules.push(vec![c]);
                }
                ctx.count("docs_with_all_1cuts");
            }
            if len <= two_cut_limit && (ctx.tier == Tier::Thorough || i % 4 == 0) {
                for c1 in 1..len {
                    for c2 in c1..len {
                        schedules.push(vec![c1, c2]);
                    }
                }
                ctx.count("docs_with_all_2cuts");
            }
            if long_tokens {
                for _ in 0..4 {
                    let k = ctx.rng.range(4, 16);
                    let mut c: Vec<usize> = (0..k).map(|_| ctx.rng.range(1, len.max(2) - 1)).collect();
                    c.sort_unstable();
                    c.dedup();
                    schedules.push(c);
                }
            } else {
                schedules.push((1..len).collect());
            }
            for _ in 0..3 {
                schedules.push(gen::random_cuts(&mut ctx.rng, len));
            }
            let cfg_hash = fnv(serde_json::to_string(&cfg).unwrap().as_bytes());
            let base_hash = mix(fnv(&input), cfg_hash);
            if mutating {
                ctx.count("mutating_configs");
            } else {
                ctx.count("observer_configs");
            }
            match check_str(&cfg, &input, &a) {
                Ok(true) => ctx.count("rewrite_str_comparisons"),
                Ok(false) => {}
                Err((k, m)) => {
                    if !ctx.violation(Violation { key: k, msg: m, case: Case::new(&cfg, &input, &[]).to_value() }) {
                        return;
                    }
                }
            }
            for cuts in schedules {
                ctx.eval();
                match compare(&cfg, &input, &a, &cuts) {
                    Ok(()) => {
                        if gen::cuts_inside(&cuts, len) && a.invocations > 0 {
                            ctx.nontrivial(mix(base_hash, fnv(format!("{cuts:?}").as_bytes())));
                            if cuts.len() == 1 {
                                let cl = cut_class(&input, cuts[0]);
                                ctx.count(&format!("cut:{cl}"));
                            }
                        }
                    }
                    Err((key, msg)) => {
                        if key == "harness" {
                            panic!("{msg}");
                        }
                        let mut case = Case::new(&cfg, &input, &cuts);
                        case.note = "compare against the single-write run".into();
                        if !ctx.violation(Violation { key, msg, case: case.to_value() }) {
                            return;
                        }
                        break;
                    }
                }
            }
            if a.invocations > 0 {
                ctx.sample(|| Case::new(&cfg, &input, &[input.len() / 2]).to_value());
            }
        }
    }
    fn replay(&self, case: &Value) -> Result<Vec<Violation>, String> {
        let c: Case = serde_json::from_value(case.clone()).map_err(|e| e.to_string())?;
        let input = c.input();
        let mut out = vec![];
        match canon(&c.cfg, &input, &[]) {
            Err((key, msg)) => out.push(Violation { key, msg, case: case.clone() }),
            Ok(a) => {
                if let Err((key, msg)) = compare(&c.cfg, &input, &a, &c.cuts) {
                    out.push(Violation { key, msg, case: case.clone() });
                }
                if let Err((key, msg)) = check_str(&c.cfg, &input, &a) {
                    out.push(Violation { key, msg, case: case.clone() });
                }
            }
        }
        Ok(out)
    }
    fn watchdog_s(&self, tier: Tier) -> u64 {
        tier.pick(300, 2400)
    }
}
