//! C10 Memory limit: input-driven buffers stay within the limit or the call fails (limit sweeps).

use super::Case;
use crate::core::{show, Ctx, Prop, Tier, Violation};
use crate::engine::{self, Config, DocH, ElH, ErrKind, Rec, Res, RunResult};
use crate::gen::{self, SoupKind};
use crate::rng::{fnv, mix, Rng};
use serde_json::Value;

pub struct C10;

#[derive(Clone, Copy, Debug, PartialEq, Eq)]
pub enum Shape {
    UnterminatedTag,
    LongComment,
    LongAttrValue,
    LongTagName,
    DeepNesting,
    LongDoctype,
    Soup,
    LongEndTag,
    ForeignDeep,
}

pub const SHAPES: &[Shape] = &[Shape::UnterminatedTag, Shape::LongComment, Shape::LongAttrValue, Shape::LongTagName, Shape::DeepNesting, Shape::LongDoctype, Shape::Soup, Shape::LongEndTag, Shape::ForeignDeep];

/// growth-shaped input: returns (input, number of elements left open at the deepest point)
pub fn growth_input(rng: &mut Rng, shape: Shape, size: usize) -> (Vec<u8>, usize) {
    let mut v: Vec<u8> = Vec::new();
    let mut depth = 0;
    match shape {
        Shape::UnterminatedTag => {
            v.extend_from_slice(b"text<div");
            while v.len() < size {
                v.extend_from_slice(*rng.pick(&[&b" a=b"[..], b" class='x y'", b" data-x=\"1\"", b" q"]));
            }
            if rng.bool() {
                v.extend_from_slice(b">tail");
            }
        }
        Shape::LongComment => {
            v.extend_from_slice(b"a<!--");
            while v.len() < size {
                v.extend_from_slice(*rng.pick(&[&b"x"[..], b" - ", b"<b>", b"comment "]));
            }
            if rng.bool() {
                v.extend_from_slice(b"-->z");
            }
        }
        Shape::LongAttrValue => {
            v.extend_from_slice(b"<a href=\"");
            while v.len() < size {
                v.extend_from_slice(b"/path?x=1&y=2");
            }
            if rng.bool() {
                v.extend_from_slice(b"\">link</a>");
            }
        }
        Shape::LongTagName => {
            v.extend_from_slice(b"<x");
            while v.len() < size {
                v.push(b'a' + (rng.below(26) as u8));
            }
            if rng.bool() {
                v.extend_from_slice(b">t");
            }
        }
        Shape::DeepNesting => {
            let names: &[&[u8]] = &[b"div", b"span", b"p", b"abcdefghijklmnopq"];
            while v.len() < size {
                v.push(b'<');
                v.extend_from_slice(*rng.pick(names));
                v.push(b'>');
                depth += 1;
            }
            v.extend_from_slice(b"x");
        }
        Shape::ForeignDeep => {
            v.extend_from_slice(b"<svg>");
            depth += 1;
            while v.len() < size {
                v.extend_from_slice(*rng.pick(&[&b"<g>"[..], b"<svg>", b"<foreignObject><svg>", b"<desc><math>"]));
                depth += 1;
            }
        }
        Shape::LongDoctype => {
            v.extend_from_slice(b"<!DOCTYPE html PUBLIC \"");
            while v.len() < size {
                v.extend_from_slice(b"-//W3C//DTD ");
            }
            if rng.bool() {
                v.extend_from_slice(b"\">x");
            }
        }
        Shape::LongEndTag => {
            v.extend_from_slice(b"<p>x</p");
            while v.len() < size {
                v.extend_from_slice(b" a=b");
            }
            if rng.bool() {
                v.extend_from_slice(b">y");
            }
        }
        Shape::Soup => {
            while v.len() < size {
                let rawb = rng.chance(1, 8);
                v.extend(gen::soup(rng, 6, SoupKind::Any, rawb));
            }
        }
    }
    (v, depth)
}

pub fn gen_cfg(rng: &mut Rng) -> Config {
    let mut cfg = Config::default();
    match rng.below(6) {
        0 | 1 => {} // pass-through
        2 => cfg.doc.push(DocH { comments: true, doctype: true, text: rng.bool(), end: true, ..Default::default() }),
        3 => cfg.el.push(ElH { selector: (*rng.pick(&["*", "div", "div div", "p > span", "[a]", "div:nth-child(2)", "svg g", ":not(p)", "span:nth-of-type(2)"])).into(), element: true, end_tag: rng.bool(), ..Default::default() }),
        4 => {
            cfg.el.push(ElH { selector: "*".into(), element: true, text: true, comments: true, end_tag: true, ..Default::default() });
            cfg.doc.push(DocH { comments: true, doctype: true, text: true, end: true, ..Default::default() });
        }
        _ => gen::observer_config(rng, &mut cfg),
    }
    cfg
}

#[derive(Debug)]
pub struct Outcome {
    pub ok: bool,
    pub out: Vec<u8>,
    pub res: Res,
    pub peak_pending: usize,
    pub peak_mem: usize,
    pub fail_event: Option<String>,
}

pub fn run_at(cfg: &Config, input: &[u8], cuts: &[usize], m: usize, prealloc: usize) -> Result<(Outcome, RunResult), (String, String)> {
    let mut c = cfg.clone();
    c.max_mem = Some(m);
    c.prealloc = Some(prealloc);
    let r = engine::run(&c, input, cuts).map_err(|e| ("harness".to_string(), e))?;
    let res = r.final_res();
    if let Res::Panic(msg) = &res {
        return Err(("panic".into(), format!("panic with memory limit {m}: {msg}\n input: {}\n cuts: {cuts:?}", show(input))));
    }
    if let Res::Err(ErrKind::Handler(msg)) = &res {
        return Err(("unexpected-error-kind".into(), format!("memory limit {m}: observers only, yet the run failed with a content handler error ({msg})\n input: {}", show(input))));
    }
    let mut peak_pending = 0;
    let mut peak_mem = 0;
    let mut inb = 0usize;
    let mut cur = 0usize;
    let pass_through = !cfg.has_handlers();
    for rec in &r.log {
        match rec {
            Rec::CallWrite(n) => cur = *n,
            Rec::Ret { res: Res::Ok, out_len, mem } => {
                inb += cur;
                cur = 0;
                // (b) accounted usage never exceeds M after a successful call
                if *mem > m {
                    return Err(("accounted-usage-exceeds-limit".into(), format!("after a successful call the rewriter accounts for {mem} bytes with a limit of {m}\n input: {}\n cuts: {cuts:?}", show(input))));
                }
                peak_mem = peak_mem.max(*mem);
                // (a) pass-through: retained not-yet-emitted input never exceeds M
                if pass_through && inb >= *out_len {
                    let pending = inb - out_len;
                    peak_pending = peak_pending.max(pending);
                    if pending > m {
                        return Err(("retains-more-than-limit".into(), format!("pass-through configuration retains {pending} not-yet-emitted bytes after a successful write with a limit of {m}\n input: {}\n cuts: {cuts:?}", show(input))));
                    }
                }
            }
            _ => {}
        }
    }
    let fail_event = r.hook.iter().find_map(|e| match e {
        lol_html::verif::Event::FailAppend => Some("append".to_string()),
        lol_html::verif::Event::FailParse => Some("parse".to_string()),
        lol_html::verif::Event::FailInitWith => Some("init_with".to_string()),
        lol_html::verif::Event::FailParseInEnd => Some("end".to_string()),
        _ => None,
    });
    Ok((Outcome { ok: res == Res::Ok, out: r.out(), res, peak_pending, peak_mem, fail_event }, r))
}

#[derive(Default)]
pub struct SweepObs {
    pub runs: usize,
    pub failing: usize,
    pub succeeding: usize,
    pub need: Option<usize>,
    pub sites: Vec<String>,
    pub max_depth_ok_checked: bool,
}

/// sweep M over `limits` (ascending)
pub fn sweep(cfg: &Config, input: &[u8], cuts: &[usize], limits: &[usize], prealloc_of: &dyn Fn(usize) -> usize, depth: usize, active_vm: bool) -> Result<SweepObs, (String, String)> {
    let mut obs = SweepObs::default();
    let mut first_ok: Option<(usize, Vec<u8>)> = None;
    for &m in limits {
        let pre = prealloc_of(m);
        let (o, _r) = run_at(cfg, input, cuts, m, pre)?;
        obs.runs += 1;
        if o.ok {
            obs.succeeding += 1;
            // (c) uncharged growth: D open elements under an active selector VM cannot fit in fewer than 8*D bytes
            if active_vm && depth > 0 {
                obs.max_depth_ok_checked = true;
                if m < 8 * depth {
                    return Err(("uncharged-stack-growth".into(), format!("{depth} elements were open under an active selector VM and the run succeeded with a limit of only {m} bytes\n input: {}", show(input))));
                }
            }
            match &first_ok {
                None => {
                    obs.need = Some(m);
                    first_ok = Some((m, o.out));
                }
                Some((m0, out0)) => {
                    if *out0 != o.out {
                        return Err(("output-depends-on-limit".into(), format!("the run succeeds under limit {m0} and under {m} but with different output\n input: {}", show(input))));
                    }
                }
            }
        } else {
            obs.failing += 1;
            if let Some(s) = o.fail_event {
                if !obs.sites.contains(&s) {
                    obs.sites.push(s);
                }
            }
            if !matches!(o.res, Res::Err(ErrKind::Mem) | Res::Err(ErrKind::Ambiguity)) {
                return Err(("unexpected-error-kind".into(), format!("limit {m}: {:?}", o.res)));
            }
            if let Some((m0, _)) = &first_ok {
                if matches!(o.res, Res::Err(ErrKind::Mem)) {
                    return Err(("non-monotone".into(), format!("the run succeeds with limit {m0} but fails with MemoryLimitExceeded under the larger limit {m} (prealloc {pre})\n input: {}\n cuts: {cuts:?}", show(input))));
                }
            }
        }
        // (e) determinism: same (M, config, writes) -> same outcome (sampled)
        if m % 7 == 0 {
            let (o2, _) = run_at(cfg, input, cuts, m, pre)?;
            obs.runs += 1;
            if o2.ok != o.ok || (o.ok && o2.peak_mem != o.peak_mem) {
                return Err(("nondeterministic".into(), format!("the same run under limit {m} gave two different outcomes\n input: {}", show(input))));
            }
        }
    }
    Ok(obs)
}

#[derive(Clone, Debug, serde_derive::Serialize, serde_derive::Deserialize)]
pub struct Case10 {
    pub base: Case,
    pub limits: Vec<usize>,
    pub prealloc_mode: u8,
    pub depth: usize,
    pub active_vm: bool,
}

/// the preallocation is constant over a sweep (monotonicity is a statement about one configuration);
/// limits below it are skipped (documented precondition of debug builds)
fn prealloc_of(mode: u8) -> usize {
    match mode {
        0 => 0,
        1 => 8,
        2 => 64,
        _ => 1024,
    }
}

pub fn check_case(c: &Case10) -> Result<SweepObs, (String, String)> {
    let p = prealloc_of(c.prealloc_mode);
    let limits: Vec<usize> = c.limits.iter().copied().filter(|&m| m >= p).collect();
    sweep(&c.base.cfg, &c.base.input(), &c.base.cuts, &limits, &move |_| p, c.depth, c.active_vm)
}

/// smallest limit under which the run succeeds (success is monotone in M: checked by the sweeps)
pub fn min_limit(cfg: &Config, input: &[u8], cuts: &[usize]) -> Result<Option<usize>, (String, String)> {
    let mut hi = 1usize << 20;
    if !run_at(cfg, input, cuts, hi, 0)?.0.ok {
        return Ok(None);
    }
    let mut lo = 0usize; // invariant: fails at lo-1 (or lo == 0), succeeds at hi
    while lo < hi {
        let mid = (lo + hi) / 2;
        if run_at(cfg, input, cuts, mid, 0)?.0.ok {
            hi = mid;
        } else {
            lo = mid + 1;
        }
    }
    Ok(Some(hi))
}

#[derive(Clone, Debug, serde_derive::Serialize, serde_derive::Deserialize)]
pub struct Additive {
    pub depth: usize,
    pub token_len: usize,
    pub split: usize,
    pub selector: String,
    pub name: String,
}

/// One budget for everything: D open elements under an active selector VM (charged to the open-element stack) and an
/// unfinished comment buffered across two writes (charged to the parsing buffer) are both alive after the last write, so
/// the smallest sufficient limit of the combined document is at least the sum of the limits each part needs alone.
pub fn check_additive(a: &Additive) -> Result<(usize, usize, usize), (String, String)> {
    // a document-level comment handler keeps the parser lexing, so the unfinished comment is buffered in full and no
    // partially read element is involved (when an unfinished *tag* is pushed on the open-element stack is an
    // implementation choice this relation must not depend on)
    let cfg = Config { el: vec![ElH { selector: a.selector.clone(), element: true, ..Default::default() }], doc: vec![DocH { comments: true, ..Default::default() }], skip_end: true, ..Default::default() };
    let mut nest: Vec<u8> = vec![];
    for _ in 0..a.depth {
        nest.extend_from_slice(format!("<{}>", a.name).as_bytes());
    }
    let mut tok: Vec<u8> = b"<!-- ".to_vec();
    while tok.len() < a.token_len {
        tok.push(b'u');
    }
    let split = a.split.clamp(1, tok.len() - 1);
    let mut both = nest.clone();
    both.extend_from_slice(&tok);
    let stack_only = {
        let mut v = nest.clone();
        v.push(b'x');
        v
    };
    let need_stack = min_limit(&cfg, &stack_only, &[])?;
    let need_buf = min_limit(&cfg, &tok, &[split])?;
    let need_both = min_limit(&cfg, &both, &[nest.len() + split])?;
    let (Some(s), Some(b), Some(t)) = (need_stack, need_buf, need_both) else {
        return Err(("harness".into(), "additivity case does not succeed under 1 MiB".into()));
    };
    if t + 8 < s + b {
        return Err((
            "limit-not-shared".into(),
            format!("{} open <{}> elements alone need a limit of {s}, a {}-byte unfinished comment split at {split} alone needs {b}, but both together succeed under {t} < {s} + {b}: the open-element stack and the parsing buffer are not charged to one budget", a.depth, a.name, tok.len()),
        ));
    }
    Ok((s, b, t))
}

#[derive(Clone, Debug, serde_derive::Serialize, serde_derive::Deserialize)]
pub struct Retention {
    pub stream: crate::retention::Stream,
    pub selectors: Vec<String>,
    pub doc_handlers: bool,
    pub chunk: usize,
    pub n: usize,
    pub limit: usize,
}

pub const RETENTION_SELECTORS: &[&str] = &[
    "*", "div", "div span", "main > *", "[a]", "[a=b]", "*:nth-child(2)", "*:nth-of-type(2)", "span:nth-of-type(odd)", ":not(p)", "section p", "li:first-child", "svg path", "main *:nth-of-type(3)", "p:first-of-type",
];

/// Streams of complete tokens with bounded nesting depth: whatever the rewriter still holds after n items it also holds
/// after 4n items, up to the configured limit M ("no sequence of writes makes the rewriter ... grow its open-element
/// bookkeeping beyond M"). Measured with the counting allocator on the bytes the current thread has live.
/// Returns Ok(None) when one of the runs hit the memory limit (which is the permitted alternative).
pub fn check_retention(r: &Retention) -> Result<Option<(isize, isize)>, (String, String)> {
    let small = crate::retention::stream(r.stream, r.n);
    let large = crate::retention::stream(r.stream, r.n * 4);
    let a = crate::retention::retained_after(&r.selectors, r.doc_handlers, r.limit, &small, r.chunk);
    let b = crate::retention::retained_after(&r.selectors, r.doc_handlers, r.limit, &large, r.chunk);
    let (Some(a), Some(b)) = (a, b) else { return Ok(None) };
    if b - a > r.limit as isize {
        return Err((
            "retained-heap-grows-beyond-limit".into(),
            format!(
                "after {} items of the {:?} stream (all tokens complete, nesting depth <= 6) the rewriter keeps {a} heap bytes alive, after {} items {b}: growth {} exceeds the memory limit of {} bytes and no write failed (selectors {:?}, document handlers {}, writes of {} bytes)",
                r.n,
                r.stream,
                r.n * 4,
                b - a,
                r.limit,
                r.selectors,
                r.doc_handlers,
                r.chunk
            ),
        ));
    }
    Ok(Some((a, b)))
}

impl Prop for C10 {
    fn id(&self) -> &'static str {
        "C10"
    }
    fn level(&self) -> &'static str {
        "fault_enumeration"
    }
    fn rule(&self) -> String {
        "for growth-shaped inputs (unterminated tag / comment / attribute value / doctype / end tag, long tag name, deep nesting in HTML and foreign content, soup) x handler sets (pass-through, capturing observers, selectors) x write schedules x preallocation modes the memory limit M is swept over EVERY value from 0 to beyond the first succeeding one (small inputs) or geometrically (large); per run: accounted usage (hook) <= M and pending <= M after every successful call, only MemoryLimitExceeded as failure; per sweep: monotone success with identical output, >= 8 bytes charged per open element, determinism on re-runs; additivity: the smallest sufficient limit of (D open elements + an unfinished token split over two writes) is at least the sum of the limits the two parts need alone (one shared budget); retention: for streams of complete tokens with bounded nesting depth (distinct long / short element names, names closed by their parent's end tag, stray end tags, comments and text, voids and foreign self-closing elements) the heap bytes the thread keeps alive for the rewriter after 4n items exceed those after n items by at most M unless a write fails (counting global allocator); non-trivial: the sweep contains both a failing and a succeeding limit; distinct = hash(input, schedule, config, prealloc mode)".into()
    }
    fn assumptions(&self) -> Vec<String> {
        vec![
            "allocation failure itself cannot be injected (it aborts); only the accounting limit is exercised".into(),
            "preallocated_parsing_buffer_size > max_allowed_memory_usage trips a documented debug_assert and is exercised in the rel flavour only".into(),
            "heap that lol-html documents as unaccounted (owned long tag names, namespace stack, handler vectors) is not bounded by this check".into(),
        ]
    }
    fn run_shard(&self, ctx: &mut Ctx<'_>) {
        let n = ctx.budget(30_000, 600_000);
        let release = ctx.flavour == "rel";
        let allocator_ok = crate::retention::installed();
        if !allocator_ok && ctx.shard == 0 {
            ctx.inconclusive("retention monitor: the counting allocator is not installed in this binary".to_string());
        }
        for i in 0..n {
            if i % 4 == 0 && ctx.should_stop() {
                break;
            }
            if i % 16 == 9 {
                if !allocator_ok {
                    continue;
                }
                let nsel = ctx.rng.below(4);
                let r = Retention {
                    stream: *ctx.rng.pick(crate::retention::STREAMS),
                    selectors: (0..nsel).map(|_| (*ctx.rng.pick(RETENTION_SELECTORS)).to_string()).collect(),
                    doc_handlers: ctx.rng.bool(),
                    chunk: *ctx.rng.pick(&[97usize, 1000, 4096, 1 << 22]),
                    n: *ctx.rng.pick(&[400usize, 1000, 1500]),
                    limit: *ctx.rng.pick(&[16usize << 10, 64 << 10]),
                };
                ctx.eval();
                match check_retention(&r) {
                    Ok(Some((a, b))) => {
                        ctx.count("retention_pairs_measured");
                        ctx.count(&format!("retention_stream:{:?}", r.stream));
                        let m = a.max(b);
                        ctx.count(if m < 4096 { "retained_bytes:<4KiB" } else if m < 16384 { "retained_bytes:4-16KiB" } else if m < 65536 { "retained_bytes:16-64KiB" } else { "retained_bytes:>=64KiB" });
                    }
                    Ok(None) => ctx.count("retention_runs_stopped_by_the_limit"),
                    Err((key, msg)) => {
                        let key = if r.selectors.iter().any(|s| s.contains("of-type")) && matches!(r.stream, crate::retention::Stream::DistinctLongNames | crate::retention::Stream::DistinctShortNames | crate::retention::Stream::NestedGroups | crate::retention::Stream::ClosedByParent) { format!("{key}:nth-of-type-counters-of-distinct-sibling-names") } else { key };
                        if !ctx.violation(Violation { key, msg, case: serde_json::json!({"retention": r}) }) {
                            return;
                        }
                    }
                }
                continue;
            }
            if i % 8 == 5 {
                let a = Additive { depth: ctx.rng.range(2, 60), token_len: ctx.rng.range(20, 900), split: ctx.rng.range(1, 600), selector: (*ctx.rng.pick(&["*", "div", "div div", ":not(p)", "span, div"])).to_string(), name: (*ctx.rng.pick(&["div", "span", "abcdefghijklmnopq"])).to_string() };
                ctx.eval();
                match check_additive(&a) {
                    Ok((s, b, t)) => {
                        ctx.count("additivity_cases");
                        if t > s && t > b {
                            ctx.count("additivity_cases_where_both_parts_matter");
                        }
                    }
                    Err((key, msg)) => {
                        if key == "harness" {
                            panic!("{msg}");
                        }
                        if !ctx.violation(Violation { key, msg, case: serde_json::json!({"additive": a}) }) {
                            return;
                        }
                    }
                }
                continue;
            }
            let shape = SHAPES[ctx.rng.below(SHAPES.len())];
            let big = ctx.rng.chance(1, 12);
            let size = if big { ctx.rng.range(2_000, 20_000) } else { ctx.rng.range(10, 300) };
            let (input, depth) = growth_input(&mut ctx.rng, shape, size);
            let cfg = gen_cfg(&mut ctx.rng);
            let active_vm = !cfg.el.is_empty();
            let cuts = match ctx.rng.below(4) {
                0 => vec![],
                1 => {
                    let k = ctx.rng.range(1, 40);
                    (1..input.len()).filter(|x| x % k == 0).collect()
                }
                _ => gen::random_cuts(&mut ctx.rng, input.len()),
            };
            // find an upper bound that succeeds
            let limits: Vec<usize> = if !big {
                // every M from 0 to need + delta
                let hi = 64 * 1024;
                let mut need = hi;
                // probe geometrically for the first success, then sweep all values below it
                let mut m = 1usize;
                while m < hi {
                    if let Ok((o, _)) = run_at(&cfg, &input, &cuts, m, 0) {
                        if o.ok {
                            need = m;
                            break;
                        }
                    }
                    m *= 2;
                }
                let top = (need + 40).min(hi);
                if top > 6000 {
                    // too expensive to enumerate: geometric
                    let mut v = vec![0];
                    let mut x = 1;
                    while x < top * 2 {
                        v.push(x);
                        v.push(x + 1);
                        x = x * 3 / 2 + 1;
                    }
                    v
                } else {
                    (0..=top).collect()
                }
            } else {
                let mut v = vec![0usize];
                let mut x = 1;
                while x < 400_000 {
                    v.push(x);
                    v.push(x - 1);
                    x = x * 3 / 2 + 1;
                }
                v.sort_unstable();
                v.dedup();
                v
            };
            let prealloc_mode = *ctx.rng.pick(&[0u8, 0, 1, 2, 3]);
            let case = Case10 { base: Case::new(&cfg, &input, &cuts), limits, prealloc_mode, depth, active_vm };
            ctx.eval();
            match check_case(&case) {
                Ok(o) => {
                    ctx.evals(o.runs as u64);
                    ctx.add("limit_runs", o.runs as u64);
                    ctx.add("failing_runs", o.failing as u64);
                    ctx.add("succeeding_runs", o.succeeding as u64);
                    for s in &o.sites {
                        ctx.count(&format!("failure_site:{s}"));
                    }
                    ctx.count(&format!("shape:{shape:?}"));
                    if o.max_depth_ok_checked {
                        ctx.count("stack_charge_checked");
                    }
                    if o.failing > 0 && o.succeeding > 0 {
                        ctx.nontrivial(mix(mix(fnv(&input), fnv(format!("{cuts:?}{prealloc_mode}").as_bytes())), fnv(serde_json::to_string(&cfg).unwrap().as_bytes())));
                        ctx.sample(|| {
                            let mut v = serde_json::to_value(&case).unwrap();
                            v["limits"] = serde_json::json!(format!("{} limits from {} to {}", case.limits.len(), case.limits[0], case.limits[case.limits.len() - 1]));
                            v["base"]["input_hex"] = serde_json::json!(format!("{} bytes: {}", input.len(), show(&input[..input.len().min(80)])));
                            v
                        });
                    }
                }
                Err((key, msg)) => {
                    if key == "harness" {
                        panic!("{msg}");
                    }
                    if !ctx.violation(Violation { key, msg, case: serde_json::to_value(&case).unwrap() }) {
                        return;
                    }
                }
            }
            // release flavour: preallocation larger than the limit must give Ok / MemoryLimitExceeded, never a panic
            if release && ctx.rng.chance(1, 3) {
                let mut c2 = cfg.clone();
                let m = ctx.rng.below(64);
                c2.max_mem = Some(m);
                c2.prealloc = Some(m + 1 + ctx.rng.below(2000));
                ctx.eval();
                match engine::run(&c2, &input, &cuts) {
                    Ok(r) => {
                        ctx.count("prealloc_gt_max_runs");
                        if let Res::Panic(p) = r.final_res() {
                            let case = Case::new(&c2, &input, &cuts);
                            if !ctx.violation(Violation { key: "panic-prealloc-gt-max".into(), msg: format!("panic with preallocation > limit in a release build: {p}"), case: serde_json::json!({"base": case.to_value(), "limits": [m], "prealloc_mode": 9, "depth": 0, "active_vm": false}) }) {
                                return;
                            }
                        }
                    }
                    Err(e) => panic!("{e}"),
                }
            }
        }
    }
    fn replay(&self, case: &Value) -> Result<Vec<Violation>, String> {
        if let Some(r) = case.get("retention") {
            let r: Retention = serde_json::from_value(r.clone()).map_err(|e| e.to_string())?;
            return match check_retention(&r) {
                Ok(_) => Ok(vec![]),
                Err((key, msg)) => Ok(vec![Violation { key, msg, case: case.clone() }]),
            };
        }
        if let Some(a) = case.get("additive") {
            let a: Additive = serde_json::from_value(a.clone()).map_err(|e| e.to_string())?;
            return match check_additive(&a) {
                Ok(_) => Ok(vec![]),
                Err((key, msg)) => Ok(vec![Violation { key, msg, case: case.clone() }]),
            };
        }
        let c: Case10 = serde_json::from_value(case.clone()).map_err(|e| e.to_string())?;
        match check_case(&c) {
            Ok(_) => Ok(vec![]),
            Err((key, msg)) => Ok(vec![Violation { key, msg, case: case.clone() }]),
        }
    }
    fn watchdog_s(&self, tier: Tier) -> u64 {
        tier.pick(400, 3000)
    }
    fn min_nontrivial(&self, tier: Tier) -> u64 {
        tier.pick(30, 100)
    }
}
