//! C15 Robustness: any bytes, selectors and settings give Ok or Err, never a crash.
//! Workers are CHILD PROCESSES (an abort / stack overflow kills only the worker; the dead worker's batch is
//! re-run case by case to find the culprit).

use super::Case;
use crate::core::{show, Ctx, Prop, Tier, Violation};
use crate::engine::{self, Config, Content, ElH, Op, Res};
use crate::gen::{self, SoupKind};
use crate::mutgen;
use crate::rng::{fnv, mix, Rng};
use serde_derive::{Deserialize, Serialize};
use serde_json::{json, Value};
use std::io::Write;
use std::process::{Command, Stdio};

pub struct C15;

#[derive(Clone, Debug, Serialize, Deserialize)]
pub enum Case15 {
    Rewrite(Case),
    Selector(String),
    /// (shape, size): pathological input generated from its description
    Patho { shape: String, n: usize, selectors: Vec<String>, cuts_every: usize },
    /// selector string described by (kind, depth) - may exhaust the stack
    DeepSelector { kind: String, depth: usize },
    /// arbitrary byte pieces (hex; valid, split or malformed UTF-8) handed to `StreamingHandlerSink::write_utf8_chunk`
    Utf8Chunks { pieces_hex: Vec<String>, html: bool, encoding: String },
}

/// `<p>x</p>` with a streaming append on p that writes `pieces` through write_utf8_chunk. Returns (per-call ok flags, output).
pub fn run_utf8_chunks(pieces: &[Vec<u8>], html: bool, encoding: &str) -> Result<(Vec<bool>, Vec<u8>), String> {
    use lol_html::html_content::{ContentType, Element, StreamingHandlerSink};
    use std::sync::{Arc, Mutex};
    let enc = encoding_rs::Encoding::for_label(encoding.as_bytes()).ok_or("encoding")?;
    let flags: Arc<Mutex<Vec<bool>>> = Arc::new(Mutex::new(vec![]));
    let f2 = flags.clone();
    let pieces: Vec<Vec<u8>> = pieces.to_vec();
    let mut out: Vec<u8> = vec![];
    let r = std::panic::catch_unwind(std::panic::AssertUnwindSafe(|| {
        let st = lol_html::Settings::new_send()
            .with_encoding(lol_html::AsciiCompatibleEncoding::new(enc).unwrap())
            .append_element_content_handler(lol_html::element!("p", move |el: &mut Element<'_, '_, lol_html::send::SendHandlerTypes>| {
                let pieces = pieces.clone();
                let f3 = f2.clone();
                el.streaming_append(Box::new(move |sink: &mut StreamingHandlerSink<'_>| {
                    let t = if html { ContentType::Html } else { ContentType::Text };
                    for p in &pieces {
                        f3.lock().unwrap().push(sink.write_utf8_chunk(p, t).is_ok());
                    }
                    Ok(())
                }));
                Ok(())
            }));
        let mut rw = lol_html::send::HtmlRewriter::new(st, |c: &[u8]| out.extend_from_slice(c));
        let a = rw.write(b"<p>x</p>");
        let b = if a.is_ok() { rw.end() } else { Ok(()) };
        (a.is_ok(), b.is_ok())
    }));
    match r {
        Err(p) => Err(format!("panic: {}", engine::panic_msg(&p))),
        Ok(_) => {
            let v = flags.lock().unwrap().clone();
            Ok((v, out))
        }
    }
}

const CSS_TOKENS: &[&str] = &[
    "div", "*", "#", ".", "a", "[", "]", "=", "~=", "|=", "^=", "$=", "*=", "\"", "'", ":not(", ")", ":nth-child(", ":nth-of-type(", "2n+1", "-n+3", "n", "odd", "even", ">", " ", ",", "+", "~", "::before", ":hover", ":is(", ":where(", ":has(",
    "|", "\\", "\\31 ", "/*", "*/", "i", "s", " i]", "foo", "-", "--", "9", "\u{e9}", "\u{0}", ":root", ":empty", ":first-child", ":last-child", "@", "!", "(", "{", "}", ";", "&", "%", ":nth-child(9999999999n+1)", ":nth-child(-2147483648n-2147483648)", ":nth-child(2147483647)",
];

pub fn gen_selector_string(rng: &mut Rng) -> String {
    let n = rng.range(1, 12);
    let mut s = String::new();
    for _ in 0..n {
        s.push_str(*rng.pick(CSS_TOKENS));
    }
    s
}

fn settings_matrix(rng: &mut Rng, cfg: &mut Config) {
    cfg.strict = rng.bool();
    cfg.esi = rng.chance(1, 4);
    cfg.adjust_charset = rng.chance(1, 3);
    cfg.send = rng.chance(1, 6);
    if rng.chance(1, 3) {
        let m = *rng.pick(&[0usize, 1, 7, 8, 16, 63, 64, 100, 128, 255, 1000, 4096]);
        cfg.max_mem = Some(m);
        // debug builds assert prealloc <= max (documented precondition)
        cfg.prealloc = Some(if rng.bool() { 0 } else { m.min(rng.below(64)) });
    }
    cfg.graceful_mem = rng.bool();
    cfg.graceful_handler = rng.bool();
    cfg.bail = rng.below(3);
    cfg.bail_append = rng.bool();
    cfg.probe_attrs = rng.chance(1, 4);
    cfg.post_read = rng.chance(1, 4);
}

pub fn gen_rewrite_case(rng: &mut Rng) -> Case {
    let encs = gen::ascii_compatible_encodings();
    let enc = if rng.bool() { encoding_rs::UTF_8 } else { *rng.pick(&encs) };
    let mut cfg = Config { encoding: enc.name().to_string(), ..Default::default() };
    settings_matrix(rng, &mut cfg);
    gen::observer_config(rng, &mut cfg);
    if rng.chance(1, 3) {
        // selectors from the robustness alphabet that happen to parse
        for _ in 0..rng.range(1, 3) {
            let s = gen_selector_string(rng);
            if std::panic::catch_unwind(|| s.parse::<lol_html::Selector>().is_ok()).unwrap_or(false) {
                cfg.el.push(ElH { selector: s, element: true, text: rng.bool(), comments: rng.bool(), end_tag: rng.bool(), ..Default::default() });
            }
        }
    }
    let rawb = rng.chance(1, 3);
    let mut input = gen::soup(rng, 30, SoupKind::Any, rawb);
    if rng.chance(1, 4) {
        gen::mutate(rng, &mut input);
    }
    if rng.chance(1, 10) {
        let k = rng.range(2, 40);
        input = input.repeat(k);
    }
    // mutating ops with arbitrary argument strings
    if rng.bool() {
        let nasty = |rng: &mut Rng| -> String { crate::props::c08::nasty(rng) };
        for e in cfg.el.iter_mut() {
            if rng.bool() {
                e.always_el.push(match rng.below(8) {
                    0 => Op::SetTagName(nasty(rng)),
                    1 => Op::SetAttr(nasty(rng), nasty(rng)),
                    2 => Op::RemoveAttr(nasty(rng)),
                    3 => Op::Replace(Content { s: nasty(rng), html: rng.bool(), streaming: rng.bool() }),
                    4 => Op::SetInner(Content { s: nasty(rng), html: rng.bool(), streaming: rng.bool() }),
                    5 => Op::Remove,
                    6 => Op::OnEndTag(vec![Op::SetTagName(nasty(rng)), mutgen::token_op(rng)]),
                    _ => mutgen::el_op(rng),
                });
            }
            if rng.chance(1, 3) {
                e.always_text.push(mutgen::token_op(rng));
                e.always_comment.push(Op::SetText(nasty(rng)));
            }
        }
        if rng.chance(1, 4) && cfg.fail_at.is_none() {
            cfg.fail_at = Some(rng.range(1, 20));
        }
    }
    let cuts = gen::random_cuts(rng, input.len());
    Case::new(&cfg, &input, &cuts)
}

pub fn run_rewrite_case(c: &Case) -> Result<(), (String, String)> {
    let input = c.input();
    match engine::run(&c.cfg, &input, &c.cuts) {
        Err(e) => {
            // a selector that the generator validated cannot be rejected now; anything else is a harness problem
            Err(("harness".into(), e))
        }
        Ok(r) => {
            for rec in &r.log {
                if let engine::Rec::Ret { res: Res::Panic(m), .. } = rec {
                    return Err(("panic".into(), format!("panic: {m}\n input: {}\n cuts: {:?}", show(&input), c.cuts)));
                }
            }
            if let Res::Err(engine::ErrKind::Handler(m)) = r.final_res() {
                if !m.contains("injected") && !m.contains("can't have content") {
                    // an internal error converted to a ContentHandlerError (ActionError::Internal in release builds)
                    return Err(("internal-error".into(), format!("the run failed with an internal error: {m}\n input: {}", show(&input))));
                }
            }
            Ok(())
        }
    }
}

pub fn patho_input(shape: &str, n: usize) -> Vec<u8> {
    match shape {
        "deep-nesting" => b"<div>".repeat(n),
        "deep-nesting-closed" => {
            let mut v = b"<div>".repeat(n);
            v.extend(b"</div>".repeat(n));
            v
        }
        "huge-text" => {
            let mut v = b"<p>".to_vec();
            v.extend(std::iter::repeat(b'x').take(n * 8));
            v
        }
        "huge-nonascii-text" => {
            let mut v = b"<p>".to_vec();
            v.extend("é".repeat(n * 4).bytes());
            v
        }
        "huge-comment" => {
            let mut v = b"<!--".to_vec();
            v.extend(std::iter::repeat(b'-').take(n * 8));
            v.extend(b"-->");
            v
        }
        "huge-attr-value" => {
            let mut v = b"<a href=\"".to_vec();
            v.extend(std::iter::repeat(b'/').take(n * 8));
            v.extend(b"\">x</a>");
            v
        }
        "many-attributes" => {
            let mut v = b"<div".to_vec();
            for i in 0..n {
                v.extend(format!(" a{i}=v{i}").bytes());
            }
            v.extend(b">x</div>");
            v
        }
        "many-duplicate-attributes" => {
            let mut v = b"<div".to_vec();
            for _ in 0..n {
                v.extend(b" a=b");
            }
            v.extend(b">x</div>");
            v
        }
        "many-siblings" => b"<p class=x>t</p>".repeat(n),
        "unclosed-script-lt" => {
            let mut v = b"<script>".to_vec();
            v.extend(b"<!--<script </scrip".repeat(n));
            v
        }
        "many-stray-end-tags" => {
            let mut v = b"<div>".repeat(n / 2 + 1);
            v.extend(b"</span>".repeat(n));
            v
        }
        "stray-end-tags-of-a-closed-name" => {
            // the name was open once, is closed again, and then only stray end tags of it follow under a deep stack
            let mut v = b"<span></span><b></b>".to_vec();
            v.extend(b"<div>".repeat(n));
            v.extend(b"</span></b>".repeat(n));
            v
        }
        "reopened-names-deep" => {
            let mut v = Vec::new();
            for i in 0..n {
                v.extend(if i % 2 == 0 { &b"<div><p></p>"[..] } else { &b"<span><i></i>"[..] });
            }
            v.extend(b"</p></i>".repeat(n));
            v
        }
        "lt-soup" => b"<".repeat(n * 4),
        "foreign-deep" => {
            let mut v = b"<svg>".to_vec();
            v.extend(b"<g><foreignObject><svg>".repeat(n / 2 + 1));
            v
        }
        "doctype-junk" => {
            let mut v = b"<!DOCTYPE ".to_vec();
            v.extend(b"PUBLIC \" ".repeat(n));
            v
        }
        _ => b"<a>".repeat(n),
    }
}

/// shapes whose whole input is one (unfinished or huge) token
pub const SINGLE_TOKEN_SHAPES: &[&str] = &["huge-comment", "huge-attr-value", "many-attributes", "many-duplicate-attributes", "doctype-junk", "huge-text", "huge-nonascii-text"];

pub const SHAPES: &[&str] = &["deep-nesting", "deep-nesting-closed", "huge-text", "huge-nonascii-text", "huge-comment", "huge-attr-value", "many-attributes", "many-duplicate-attributes", "many-siblings", "unclosed-script-lt", "many-stray-end-tags", "stray-end-tags-of-a-closed-name", "reopened-names-deep", "lt-soup", "foreign-deep", "doctype-junk"];

fn thread_cpu() -> f64 {
    let mut ts = libc::timespec { tv_sec: 0, tv_nsec: 0 };
    unsafe {
        libc::clock_gettime(libc::CLOCK_THREAD_CPUTIME_ID, &mut ts);
    }
    ts.tv_sec as f64 + ts.tv_nsec as f64 * 1e-9
}

fn patho_cfg(selectors: &[String]) -> Config {
    let mut cfg = Config::default();
    for s in selectors {
        cfg.el.push(ElH { selector: s.clone(), element: true, text: true, end_tag: true, ..Default::default() });
    }
    cfg.doc.push(crate::engine::DocH { comments: true, text: true, doctype: true, end: true, ..Default::default() });
    cfg
}

/// returns CPU seconds
pub fn run_patho(shape: &str, n: usize, selectors: &[String], cuts_every: usize) -> Result<f64, (String, String)> {
    let input = patho_input(shape, n);
    let cfg = patho_cfg(selectors);
    let cuts: Vec<usize> = if cuts_every == 0 { vec![] } else { (1..input.len()).filter(|i| i % cuts_every == 0).collect() };
    let t0 = thread_cpu();
    let r = engine::run(&cfg, &input, &cuts).map_err(|e| ("harness".to_string(), e))?;
    let dt = thread_cpu() - t0;
    if let Res::Panic(m) = r.final_res() {
        return Err(("panic".into(), format!("panic on pathological input {shape} n={n}: {m}")));
    }
    Ok(dt)
}

pub fn deep_selector(kind: &str, depth: usize) -> String {
    match kind {
        "nested-not" => format!("{}a{}", ":not(".repeat(depth), ")".repeat(depth)),
        "descendant-chain" => vec!["a"; depth].join(" "),
        "child-chain" => vec!["a"; depth].join(" > "),
        "selector-list" => vec!["a.b"; depth].join(", "),
        "compound" => ".a".repeat(depth),
        "attr-chain" => "[a=b]".repeat(depth),
        _ => "a".repeat(depth),
    }
}

pub fn run_case(c: &Case15) -> Result<(), (String, String)> {
    match c {
        Case15::Rewrite(case) => run_rewrite_case(case),
        Case15::Selector(s) => {
            let r = std::panic::catch_unwind(|| s.parse::<lol_html::Selector>().is_ok());
            match r {
                Ok(_) => Ok(()),
                Err(p) => Err(("panic-in-selector-parser".into(), format!("Selector::from_str({s:?}) panicked: {}", engine::panic_msg(&p)))),
            }
        }
        Case15::Patho { shape, n, selectors, cuts_every } => run_patho(shape, *n, selectors, *cuts_every).map(|_| ()),
        Case15::Utf8Chunks { pieces_hex, html, encoding } => {
            let pieces: Vec<Vec<u8>> = pieces_hex.iter().map(|h| crate::core::unhex(h)).collect();
            let whole: Vec<u8> = pieces.concat();
            let ctx = |m: String| format!("{m}\n pieces: {pieces_hex:?} html={html} encoding={encoding}");
            match run_utf8_chunks(&pieces, *html, encoding) {
                Err(m) => Err(("panic".into(), ctx(format!("write_utf8_chunk: {m}")))),
                Ok((flags, out)) => {
                    // the semantic half: pieces that concatenate to valid UTF-8 are accepted and give what write_str(whole) gives
                    if let Ok(sw) = std::str::from_utf8(&whole) {
                        if flags.iter().any(|ok| !ok) {
                            return Err(("valid-utf8-rejected".into(), ctx(format!("the pieces concatenate to valid UTF-8 {sw:?} but write_utf8_chunk returned an error (per call: {flags:?})"))));
                        }
                        let enc = encoding_rs::Encoding::for_label(encoding.as_bytes()).unwrap();
                        let esc = if *html { sw.to_string() } else { sw.replace('&', "&amp;").replace('<', "&lt;").replace('>', "&gt;") };
                        let mut exp = b"<p>x".to_vec();
                        exp.extend(enc.encode(&esc).0.iter());
                        exp.extend(b"</p>");
                        if out != exp {
                            return Err(("split-utf8-written-wrongly".into(), ctx(format!("output {} expected {}", show(&out), show(&exp)))));
                        }
                    }
                    Ok(())
                }
            }
        }
        Case15::DeepSelector { kind, depth } => {
            let s = deep_selector(kind, *depth);
            let r = std::panic::catch_unwind(|| {
                // parse, and if it parses use it on a small document
                match s.parse::<lol_html::Selector>() {
                    Ok(_) => {
                        let cfg = Config { el: vec![ElH { selector: s.clone(), element: true, ..Default::default() }], ..Default::default() };
                        let _ = engine::run(&cfg, b"<a><a><a class=b a=b>x</a></a></a>", &[]);
                    }
                    Err(_) => {}
                }
            });
            r.map_err(|p| ("panic-in-selector-parser".to_string(), format!("deep selector {kind} depth {depth} panicked: {}", engine::panic_msg(&p))))
        }
    }
}

// ------------------------------------------------------------------------------------------
// worker protocol
// ------------------------------------------------------------------------------------------

const BATCH: u64 = 500;

/// a UTF-8 string, corrupted half of the time (stray continuation bytes, truncated or impossible lead bytes), cut into
/// many small pieces (empty ones included)
pub fn gen_utf8_chunks(rng: &mut Rng) -> Case15 {
    let mut s = String::new();
    for _ in 0..rng.range(1, 8) {
        match rng.below(3) {
            0 => s.push(*rng.pick(&['a', '<', '&', ' ', 'z'])),
            _ => s.push(*rng.pick(gen::CHAR_POOL)),
        }
    }
    let mut b = s.into_bytes();
    if rng.bool() {
        for _ in 0..rng.range(1, 4) {
            let at = rng.below(b.len() + 1);
            match rng.below(5) {
                0 => {
                    for _ in 0..rng.range(1, 6) {
                        b.insert(at.min(b.len()), *rng.pick(&[0x80u8, 0x9f, 0xbf, 0xa0]));
                    }
                }
                1 if !b.is_empty() => {
                    b.remove(at.min(b.len() - 1));
                }
                2 => b.insert(at, *rng.pick(&[0xffu8, 0xc0, 0xc1, 0xf5, 0xf8, 0xed, 0xe0, 0xf0, 0xf4])),
                3 => b.truncate(at),
                _ => b.insert(at, *rng.pick(&[0xc3u8, 0xe2, 0xf0, 0xe2, 0x82])),
            }
        }
    }
    let mut pieces = vec![];
    let mut at = 0;
    while at < b.len() {
        let n = rng.below(6).min(b.len() - at);
        pieces.push(crate::core::hex(&b[at..at + n]));
        at += n;
    }
    let encs = gen::ascii_compatible_encodings();
    let enc = if rng.bool() { encoding_rs::UTF_8 } else { *rng.pick(&encs) };
    Case15::Utf8Chunks { pieces_hex: pieces, html: rng.bool(), encoding: enc.name().to_string() }
}

fn gen_case(rng: &mut Rng) -> Case15 {
    match rng.below(10) {
        0 | 1 => Case15::Selector(gen_selector_string(rng)),
        2 => gen_utf8_chunks(rng),
        _ => Case15::Rewrite(gen_rewrite_case(rng)),
    }
}

/// worker: runs batches [0, nbatches); prints one JSON line per finished batch and a final summary
pub fn worker_main(seed: u64, shard: u64, nbatches: u64, only_batch: Option<u64>, careful: bool) -> i32 {
    let out = std::io::stdout();
    let batches: Vec<u64> = match only_batch {
        Some(b) => vec![b],
        None => (0..nbatches).collect(),
    };
    let mut evaluations = 0u64;
    let mut nontrivial: Vec<u64> = vec![];
    let mut counters: std::collections::BTreeMap<String, u64> = Default::default();
    let mut samples: Vec<Value> = vec![];
    for b in batches {
        {
            let mut o = out.lock();
            let _ = writeln!(o, "{}", json!({"batch_start": b}));
            let _ = o.flush();
        }
        let mut rng = Rng::derive(mix(seed, shard), "C15-batch", b);
        for k in 0..BATCH {
            let c = gen_case(&mut rng);
            if careful {
                let mut o = out.lock();
                let _ = writeln!(o, "{}", json!({"case_start": k, "case": c}));
                let _ = o.flush();
            }
            evaluations += 1;
            match run_case(&c) {
                Ok(()) => {
                    let (key, h) = match &c {
                        Case15::Rewrite(case) => ("rewrite_cases", if case.input().contains(&b'<') { Some(fnv(serde_json::to_string(case).unwrap().as_bytes())) } else { None }),
                        Case15::Selector(s) => ("selector_strings", Some(fnv(s.as_bytes()))),
                        Case15::Utf8Chunks { pieces_hex, .. } => {
                            let whole: Vec<u8> = pieces_hex.iter().flat_map(|h| crate::core::unhex(h)).collect();
                            (if std::str::from_utf8(&whole).is_ok() { "utf8_chunk_histories_valid" } else { "utf8_chunk_histories_malformed" }, Some(fnv(serde_json::to_string(&c).unwrap().as_bytes())))
                        }
                        _ => ("other", None),
                    };
                    *counters.entry(key.to_string()).or_insert(0) += 1;
                    if samples.len() < 2 && h.is_some() {
                        samples.push(match &c {
                            Case15::Rewrite(case) => case.to_value(),
                            other => serde_json::to_value(other).unwrap(),
                        });
                    }
                    if let Some(h) = h {
                        if nontrivial.len() < 200_000 {
                            nontrivial.push(h);
                        }
                    }
                }
                Err((key, msg)) => {
                    let mut o = out.lock();
                    let _ = writeln!(o, "{}", json!({"violation": {"key": key, "msg": msg, "case": c}}));
                    let _ = o.flush();
                    if key != "harness" {
                        return 0;
                    }
                }
            }
        }
    }
    let mut o = out.lock();
    let _ = writeln!(o, "{}", json!({"done": true, "evaluations": evaluations, "nontrivial": nontrivial, "counters": counters, "samples": samples}));
    let _ = o.flush();
    0
}

/// one-case child process (pathological sizes, deep selectors): prints {"ok":secs} or {"violation":..}
pub fn single_main(case_json: &str) -> i32 {
    let c: Case15 = serde_json::from_str(case_json).expect("case");
    let r = match &c {
        Case15::Patho { shape, n, selectors, cuts_every } => run_patho(shape, *n, selectors, *cuts_every),
        other => run_case(other).map(|_| 0.0),
    };
    match r {
        Ok(t) => println!("{}", json!({"ok": t})),
        Err((key, msg)) => println!("{}", json!({"violation": {"key": key, "msg": msg}})),
    }
    0
}

fn spawn_self(args: &[String]) -> std::io::Result<std::process::Output> {
    let exe = std::env::current_exe()?;
    Command::new(exe).args(args).stdin(Stdio::null()).stderr(Stdio::piped()).stdout(Stdio::piped()).output()
}

fn describe_death(o: &std::process::Output) -> String {
    use std::os::unix::process::ExitStatusExt;
    let err = String::from_utf8_lossy(&o.stderr);
    let tail: String = err.lines().rev().take(6).collect::<Vec<_>>().into_iter().rev().collect::<Vec<_>>().join(" | ");
    format!("worker process died: status {:?} signal {:?}; stderr tail: {}", o.status.code(), o.status.signal(), tail)
}

/// runs one case in its own child process; Ok(Some(cpu seconds)) | Ok(None)=died
fn run_single_in_child(c: &Case15, flavour: &str) -> Result<Result<f64, (String, String)>, String> {
    let o = spawn_self(&["C15".into(), "--single".into(), serde_json::to_string(c).unwrap(), "--flavour".into(), flavour.to_string()]).map_err(|e| e.to_string())?;
    let stdout = String::from_utf8_lossy(&o.stdout);
    for line in stdout.lines() {
        if let Ok(v) = serde_json::from_str::<Value>(line) {
            if let Some(t) = v.get("ok") {
                return Ok(Ok(t.as_f64().unwrap_or(0.0)));
            }
            if let Some(vi) = v.get("violation") {
                return Ok(Err((vi["key"].as_str().unwrap_or("?").to_string(), vi["msg"].as_str().unwrap_or("?").to_string())));
            }
        }
    }
    Ok(Err(("process-died".into(), describe_death(&o))))
}

impl Prop for C15 {
    fn id(&self) -> &'static str {
        "C15"
    }
    fn rule(&self) -> String {
        "child-process workers (so aborts and stack overflows are observed, not fatal): random / soup / mutated / repeated inputs x 36 encodings x settings matrix (strict, esi, meta charset, small memory limits, graceful flags, bail-out handlers, send types) x observer and mutating handlers with arbitrary argument strings for every setter x selector strings from a CSS token alphabet (Selector::from_str must return Ok or Err) x byte-piece histories (valid, split inside a character, malformed, empty pieces) handed to StreamingHandlerSink::write_utf8_chunk (Ok or Utf8Error per call; pieces that concatenate to valid UTF-8 must give what write_str gives) - any panic, internal error or dead worker is a violation; pathological inputs (10^5-deep nesting, 10^6-byte tokens, 10^4 attributes, 10^3 selectors) run in their own process with a linearity test on thread CPU time at sizes n,2n,4n,8n; selector strings with deep :not() nesting and long combinator chains each in their own process; builds: dbg (debug assertions + overflow checks), rel, asan (thorough); non-trivial: distinct inputs by hash that contain markup (or distinct selector strings)".into()
    }
    fn assumptions(&self) -> Vec<String> {
        vec![
            "super-linearity is reported only if t(8n)/t(n) > 24 in three consecutive measurements; anything else noisy is inconclusive".into(),
            "preallocated_parsing_buffer_size > max_allowed_memory_usage is a documented debug-build precondition and is only exercised in the release flavour (by C10)".into(),
        ]
    }
    fn shards(&self) -> usize {
        16
    }
    fn run_shard(&self, ctx: &mut Ctx<'_>) {
        let per_shard_cases = ctx.budget(400_000, 12_000_000);
        let nbatches = (per_shard_cases / BATCH).max(1);
        // --- main fuzz workload in a child process
        let args: Vec<String> = vec!["C15".into(), "--worker".into(), ctx.shard.to_string(), "--seed".into(), (ctx.seed as i64).to_string(), "--batches".into(), nbatches.to_string(), "--flavour".into(), ctx.flavour.clone()];
        match spawn_self(&args) {
            Err(e) => panic!("cannot spawn worker: {e}"),
            Ok(o) => {
                let stdout = String::from_utf8_lossy(&o.stdout).into_owned();
                let mut last_batch: Option<u64> = None;
                let mut done = false;
                for line in stdout.lines() {
                    let Ok(v) = serde_json::from_str::<Value>(line) else { continue };
                    if let Some(b) = v.get("batch_start") {
                        last_batch = b.as_u64();
                    }
                    if let Some(vi) = v.get("violation") {
                        let key = vi["key"].as_str().unwrap_or("?").to_string();
                        if key == "harness" {
                            panic!("harness error in worker: {}", vi["msg"]);
                        }
                        if !ctx.violation(Violation { key, msg: vi["msg"].as_str().unwrap_or("").to_string(), case: vi["case"].clone() }) {
                            return;
                        }
                    }
                    if v.get("done").is_some() {
                        done = true;
                        ctx.evals(v["evaluations"].as_u64().unwrap_or(0));
                        for h in v["nontrivial"].as_array().cloned().unwrap_or_default() {
                            if let Some(h) = h.as_u64() {
                                ctx.nontrivial(h);
                            }
                        }
                        for sm in v["samples"].as_array().cloned().unwrap_or_default() {
                            ctx.sample(|| sm);
                        }
                        if let Some(m) = v["counters"].as_object() {
                            for (k, n) in m {
                                ctx.add(k, n.as_u64().unwrap_or(0));
                            }
                        }
                    }
                }
                if !done && ctx.shared.violations.lock().unwrap().is_empty() {
                    // the worker died: re-run its last batch carefully to find the culprit
                    ctx.count("dead_workers");
                    let death = describe_death(&o);
                    let mut culprit: Option<Value> = None;
                    if let Some(b) = last_batch {
                        let args2: Vec<String> = vec!["C15".into(), "--worker".into(), ctx.shard.to_string(), "--seed".into(), (ctx.seed as i64).to_string(), "--only-batch".into(), b.to_string(), "--careful".into(), "--flavour".into(), ctx.flavour.clone()];
                        if let Ok(o2) = spawn_self(&args2) {
                            for line in String::from_utf8_lossy(&o2.stdout).lines() {
                                if let Ok(v) = serde_json::from_str::<Value>(line) {
                                    if v.get("case_start").is_some() {
                                        culprit = Some(v["case"].clone());
                                    }
                                }
                            }
                        }
                    }
                    let case = culprit.unwrap_or(json!({"unknown": true}));
                    if !ctx.violation(Violation { key: "process-died".into(), msg: format!("{death}\n culprit case: {}", serde_json::to_string(&case).unwrap_or_default().chars().take(600).collect::<String>()), case }) {
                        return;
                    }
                }
            }
        }
        if ctx.should_stop() {
            return;
        }
        // --- pathological sizes + linearity (each measurement in its own process), shapes distributed over shards
        let base = ctx.tier.pick(3_000usize, 12_000usize);
        for (si, shape) in SHAPES.iter().enumerate() {
            if si % ctx.nshards != ctx.shard {
                continue;
            }
            for variant in 0..2 {
                let selectors: Vec<String> = if variant == 0 { vec!["*".into(), "div div".into(), "p:nth-child(2n)".into()] } else { (0..ctx.tier.pick(100, 1000)).map(|i| format!("div.c{i} > p[a{i}]")).collect() };
                let cuts_every = if variant == 0 { 0 } else { 97 };
                let mut ratios = vec![];
                let mut strikes = 0;
                for _attempt in 0..3 {
                    let mut times = vec![];
                    for mult in [1usize, 2, 4, 8] {
                        let c = Case15::Patho { shape: (*shape).into(), n: base * mult, selectors: selectors.clone(), cuts_every };
                        ctx.eval();
                        match run_single_in_child(&c, &ctx.flavour) {
                            Ok(Ok(t)) => times.push(t),
                            Ok(Err((key, msg))) => {
                                let key = if key == "process-died" { format!("process-died:{shape}") } else { key };
                                if !ctx.violation(Violation { key, msg: format!("pathological input {shape} n={}: {msg}", base * mult), case: serde_json::to_value(&c).unwrap() }) {
                                    return;
                                }
                                times.clear();
                                break;
                            }
                            Err(e) => panic!("{e}"),
                        }
                    }
                    if times.len() == 4 {
                        ctx.count("linearity_measurements");
                        let r = times[3] / times[0].max(1e-4);
                        ratios.push(r);
                        if r > 24.0 && times[3] > 0.2 {
                            strikes += 1;
                        } else {
                            break;
                        }
                    } else {
                        break;
                    }
                }
                if strikes >= 3 {
                    let c = Case15::Patho { shape: (*shape).into(), n: base * 8, selectors: selectors.clone(), cuts_every };
                    // bug model of the known finding: ONE huge unfinished token delivered in small writes is re-buffered
                    // (exact-size reallocation, re-basing of all ranges collected so far) on every write, i.e. O(n^2 / w);
                    // the very same input in a single write is linear
                    let mut key = format!("super-linear:{shape}");
                    if cuts_every > 0 && SINGLE_TOKEN_SHAPES.contains(shape) {
                        let t1 = run_single_in_child(&Case15::Patho { shape: (*shape).into(), n: base, selectors: selectors.clone(), cuts_every: 0 }, &ctx.flavour);
                        let t8 = run_single_in_child(&Case15::Patho { shape: (*shape).into(), n: base * 8, selectors: selectors.clone(), cuts_every: 0 }, &ctx.flavour);
                        if let (Ok(Ok(a)), Ok(Ok(b))) = (t1, t8) {
                            if b / a.max(1e-4) <= 24.0 {
                                key = "quadratic-rebuffering-of-unfinished-token".into();
                            }
                        }
                    }
                    if !ctx.violation(Violation { key, msg: format!("work grows super-linearly on {shape}: t(8n)/t(n) = {ratios:?} in three consecutive measurements (n = {base})"), case: serde_json::to_value(&c).unwrap() }) {
                        return;
                    }
                } else if strikes > 0 {
                    ctx.inconclusive(format!("linearity of {shape}: ratio above 24 in {strikes} of 3 measurements ({ratios:?})"));
                }
                ctx.nontrivial(mix(fnv(shape.as_bytes()), variant as u64));
            }
        }
        // --- deep selectors, each in its own process
        let kinds = ["nested-not", "descendant-chain", "child-chain", "selector-list", "compound", "attr-chain", "long-name"];
        for (ki, kind) in kinds.iter().enumerate() {
            if ki % ctx.nshards != ctx.shard {
                continue;
            }
            for depth in [10usize, 100, 1_000, 10_000, 100_000] {
                let c = Case15::DeepSelector { kind: (*kind).into(), depth };
                ctx.eval();
                match run_single_in_child(&c, &ctx.flavour) {
                    Ok(Ok(_)) => {
                        ctx.count("deep_selectors_ok");
                        ctx.nontrivial(mix(fnv(kind.as_bytes()), depth as u64));
                    }
                    Ok(Err((key, msg))) => {
                        let key = if key == "process-died" { format!("selector-stack-exhaustion:{kind}") } else { key };
                        if !ctx.violation(Violation { key, msg: format!("selector {kind} with depth {depth}: {msg}"), case: serde_json::to_value(&c).unwrap() }) {
                            return;
                        }
                        break;
                    }
                    Err(e) => panic!("{e}"),
                }
            }
        }
    }
    fn replay(&self, case: &Value) -> Result<Vec<Violation>, String> {
        let c: Case15 = serde_json::from_value(case.clone()).map_err(|e| e.to_string())?;
        match run_single_in_child(&c, "dbg")? {
            Ok(_) => Ok(vec![]),
            Err((key, msg)) => {
                let key = match (&c, key.as_str()) {
                    (Case15::DeepSelector { kind, .. }, "process-died") => format!("selector-stack-exhaustion:{kind}"),
                    (Case15::Patho { shape, .. }, "process-died") => format!("process-died:{shape}"),
                    _ => key,
                };
                Ok(vec![Violation { key, msg, case: case.clone() }])
            }
        }
    }
    fn watchdog_s(&self, tier: Tier) -> u64 {
        tier.pick(600, 3600)
    }
    fn min_nontrivial(&self, tier: Tier) -> u64 {
        tier.pick(50, 200)
    }
}
