//! C17 C API is a faithful, memory-safe, non-unwinding wrapper of the Rust API.
//! Mirrored scripts: one `Config` interpreted by the Rust-API engine and by the C-API driver (`capi.rs`).
//! Run under ASan / Miri / valgrind for the memory-safety half (see ./check).

use super::Case;
use crate::capi::{self, CSetupError, History};
use crate::core::{show, Ctx, Prop, Tier, Violation};
use crate::engine::{self, Config, DocH, ElH, ErrKind, Op, Rec, Res};
use crate::gen::{self, SoupKind};
use crate::mutgen;
use crate::rng::{fnv, mix, Rng};
use libc::c_char;
use serde_derive::{Deserialize, Serialize};
use serde_json::Value;

pub struct C17;

#[derive(Clone, Debug, Serialize, Deserialize)]
pub struct Case17 {
    pub base: Case,
    pub hist: History,
}

fn strip_unsupported(ops: &mut Vec<Op>) {
    ops.retain(|o| !matches!(o, Op::StBefore(_) | Op::StAfter(_) | Op::StReplace(_) | Op::StRemove));
    for o in ops.iter_mut() {
        if let Op::OnEndTag(inner) = o {
            strip_unsupported(inner);
        }
    }
}

/// the log as both drivers can produce it
fn normalise(log: &[Rec]) -> Vec<Rec> {
    let mut out = vec![];
    for r in log {
        let mut r = r.clone();
        match &mut r {
            Rec::Enc(_) | Rec::Probe { .. } => continue,
            Rec::Ret { res, mem, .. } => {
                *mem = 0;
                if let Res::Err(ErrKind::Handler(m)) = res {
                    *m = String::new();
                }
            }
            Rec::El(e) => {
                for a in e.attrs.iter_mut() {
                    a.name_loc = None;
                    a.value_loc = None;
                }
                if let Some(p) = e.post.as_mut() {
                    for er in p.op_errors.iter_mut() {
                        *er = er.split(':').next().unwrap_or("").to_string();
                    }
                }
            }
            Rec::Text { tt, .. } => tt.clear(),
            _ => {}
        }
        out.push(r);
    }
    out
}

pub struct Obs {
    pub accessors: bool,
    pub mutators: bool,
    pub failed: bool,
    pub invocations: usize,
}

pub fn check(c: &Case17) -> Result<Obs, (String, String)> {
    let input = c.base.input();
    let cfg = &c.base.cfg;
    let mut rcfg = cfg.clone();
    rcfg.skip_end = c.hist.no_end;
    let rust = engine::local::run(&rcfg, &input, &c.base.cuts).map_err(|e| ("harness".to_string(), e))?;
    let ctx = |m: String| format!("{m}\n input: {}\n cuts: {:?} history: {:?}\n config: {}", show(&input), c.base.cuts, c.hist, serde_json::to_string(cfg).unwrap().chars().take(1500).collect::<String>());
    let crun = match capi::run(cfg, &input, &c.base.cuts, c.hist) {
        Ok(r) => r,
        Err(CSetupError::NoLastError(m)) => return Err(("failure-without-last-error".into(), ctx(m))),
        Err(e) => return Err(("c-setup-failed".into(), ctx(format!("the C API refused a configuration the Rust API accepts: {e:?}")))),
    };
    if crun.stream_balance != 0 {
        return Err(("streaming-handler-drop-count".into(), ctx(format!("streaming handlers created minus drop_callback invocations = {} after everything was freed", crun.stream_balance))));
    }
    if !crun.probe_problems.is_empty() {
        return Err(("c-api-error-reporting".into(), ctx(crun.probe_problems.join("; "))));
    }
    let a = normalise(&rust.log);
    let b = normalise(&crun.result.log);
    if a != b {
        return Err(("c-api-differs-from-rust-api".into(), ctx(format!("recorded histories differ (A = Rust API, B = C API): {}", crate::norm::first_diff(&a, &b)))));
    }
    for r in &crun.result.log {
        if let Rec::Ret { res: Res::Err(ErrKind::Handler(m)), .. } = r {
            if m == "NO LAST ERROR" {
                return Err(("failure-without-last-error".into(), ctx("a call returned -1 but lol_html_take_last_error() returned NULL".into())));
            }
        }
        if let Rec::Bail { idx: 999, kind } = r {
            return Err(("stale-last-error".into(), ctx(format!("{kind:?}"))));
        }
    }
    let accessors = rust.log.iter().any(|r| matches!(r, Rec::El(_) | Rec::Comment { .. } | Rec::Doctype { .. }));
    let mutators = cfg.script.iter().any(|e| !e.ops.is_empty()) || cfg.el.iter().any(|e| !e.always_el.is_empty() || !e.always_text.is_empty());
    Ok(Obs { accessors, mutators, failed: !rust.ok(), invocations: rust.invocations })
}

/// failure classes that the header reports by return code: each must return the error value and leave a last error
pub fn error_classes(rng: &mut Rng) -> Result<usize, (String, String)> {
    unsafe {
        use lolhtml::errors::lol_html_take_last_error;
        use lolhtml::selector::*;
        let mut n = 0;
        let take = || -> Option<String> {
            let s = lol_html_take_last_error();
            let (data, len): (*const c_char, usize) = std::mem::transmute_copy(&s);
            let r = if data.is_null() { None } else { Some(String::from_utf8_lossy(std::slice::from_raw_parts(data as *const u8, len)).into_owned()) };
            lolhtml::string::lol_html_str_free(s);
            r
        };
        let _ = take();
        // invalid UTF-8 selector
        let bad: &[u8] = *rng.pick(&[&b"div\xff"[..], b"\xc3", b"a\xe4\xb8"]);
        let p = lol_html_selector_parse(bad.as_ptr() as *const c_char, bad.len());
        if !p.is_null() {
            lol_html_selector_free(p);
            return Err(("invalid-utf8-accepted".into(), format!("lol_html_selector_parse accepted invalid UTF-8 {}", show(bad))));
        }
        if take().is_none() {
            return Err(("failure-without-last-error".into(), "selector_parse(invalid UTF-8) returned NULL without a last error".into()));
        }
        if take().is_some() {
            return Err(("last-error-not-cleared".into(), "lol_html_take_last_error returned the same error twice".into()));
        }
        n += 1;
        // bad selectors
        let s = crate::props::c15::gen_selector_string(rng);
        let p = lol_html_selector_parse(s.as_ptr() as *const c_char, s.len());
        let rust_ok = std::panic::catch_unwind(|| s.parse::<lol_html::Selector>().is_ok()).unwrap_or(false);
        if p.is_null() {
            if rust_ok {
                return Err(("c-api-differs-from-rust-api".into(), format!("selector {s:?} parses in Rust but lol_html_selector_parse returned NULL")));
            }
            if take().is_none() {
                return Err(("failure-without-last-error".into(), format!("selector_parse({s:?}) returned NULL without a last error")));
            }
        } else {
            lol_html_selector_free(p);
            if !rust_ok {
                return Err(("c-api-differs-from-rust-api".into(), format!("selector {s:?} is rejected by Rust but accepted by lol_html_selector_parse")));
            }
        }
        n += 1;
        // encodings
        for label in ["utf-16", "UTF-16BE", "iso-2022-jp", "replacement", "no-such-encoding", "", "utf-8", "windows-1252", "Shift_JIS"] {
            let cfg = Config { encoding: "utf-8".into(), ..Default::default() };
            let mut c2 = cfg.clone();
            c2.encoding = label.to_string();
            let expect_ok = encoding_rs::Encoding::for_label_no_replacement(label.as_bytes()).map_or(false, |e| e.is_ascii_compatible());
            match capi::run(&c2, b"<p>x</p>", &[], History::default()) {
                Ok(_) => {
                    if !expect_ok {
                        return Err(("bad-encoding-accepted".into(), format!("lol_html_rewriter_build accepted the encoding label {label:?}")));
                    }
                }
                Err(CSetupError::Build(_)) => {
                    if expect_ok {
                        return Err(("good-encoding-refused".into(), format!("lol_html_rewriter_build refused the encoding label {label:?}")));
                    }
                }
                Err(e) => return Err(("failure-without-last-error".into(), format!("encoding {label:?}: {e:?}"))),
            }
            n += 1;
        }
        Ok(n)
    }
}

fn gen_case(rng: &mut Rng, small: bool) -> Case17 {
    let encs = gen::ascii_compatible_encodings();
    let enc = if rng.chance(2, 3) { encoding_rs::UTF_8 } else { *rng.pick(&encs) };
    let mut cfg = Config { encoding: enc.name().to_string(), strict: rng.chance(1, 3), esi: rng.chance(1, 8), probe_attrs: rng.bool(), post_read: rng.bool(), ..Default::default() };
    if !small {
        gen::observer_config(rng, &mut cfg);
    }
    if small || (cfg.el.is_empty() && cfg.doc.is_empty()) {
        cfg.el.push(ElH { selector: "*".into(), element: true, end_tag: true, ..Default::default() });
        cfg.doc.push(DocH { doctype: true, comments: true, text: true, end: true, ..Default::default() });
    }
    let rawb = rng.chance(1, 8);
    let input = gen::soup(rng, if small { 6 } else { 22 }, SoupKind::Any, rawb);
    let cuts = gen::random_cuts(rng, input.len());
    if small || rng.chance(2, 3) {
        if let Ok(dry) = engine::local::run(&cfg, &input, &[]) {
            mutgen::script_from_dry_run(rng, &mut cfg, &dry, if small { 1 } else { 2 });
        }
        for e in cfg.script.iter_mut() {
            strip_unsupported(&mut e.ops);
        }
    }
    match rng.below(6) {
        0 | 1 => {
            cfg.fail_at = Some(rng.range(1, 12));
        }
        2 => {
            cfg.max_mem = Some(rng.below(160));
            cfg.prealloc = Some(0);
            cfg.graceful_mem = rng.bool();
        }
        _ => {}
    }
    let hist = History { builder_freed_first: rng.bool(), strings_freed_late: rng.chance(1, 3), selectors_freed_before_rewriter: false, no_end: rng.chance(1, 10), invalid_utf8_probe: rng.chance(1, 4), errors_left_pending: rng.chance(1, 4), null_streaming_probe: rng.chance(1, 6) };
    Case17 { base: Case::new(&cfg, &input, &cuts), hist }
}

impl Prop for C17 {
    fn id(&self) -> &'static str {
        "C17"
    }
    fn rule(&self) -> String {
        "mirrored scripts: one generated configuration (selectors, element/comment/text/doctype/document-end handlers, accessor reads incl. attribute iterators and lookups, all mutators the C API exposes incl. streaming handlers and end-tag handlers, Stop directive at a handler index, tiny memory limits, esi, strict, 36 encodings) is interpreted by a Rust-API driver and by a C-API driver that only calls the exported extern \"C\" symbols with extern \"C\" callbacks; sink bytes, accessor values and error outcomes must coincide; create/use/free histories vary (builder freed before the rewriter, strings freed late, free without end); failure classes of the header (invalid UTF-8, bad selector, bad / non-ASCII-compatible encoding) must return the error value and set the thread-local last error exactly once; streaming-handler drop callbacks must balance; the same workload runs under AddressSanitizer+LeakSanitizer, Miri (aliasing model off) and valgrind memcheck; non-trivial: a script with >= 1 handler that called >= 1 accessor and >= 1 mutator; distinct = hash(case)".into()
    }
    fn assumptions(&self) -> Vec<String> {
        vec![
            "NULL / dangling arguments and use after end() are outside the header's contract and are not exercised".into(),
            "the C entry points are reached by linking the lol_html_c_api rlib and calling its extern \"C\" functions (c-api/Cargo.lock pins crate versions that are not available offline, so the cdylib cannot be built here)".into(),
            "Miri runs with -Zmiri-disable-stacked-borrows because servo_arc 0.4.3 (a dependency of selectors) violates both aliasing models".into(),
        ]
    }
    fn run_shard(&self, ctx: &mut Ctx<'_>) {
        let slow = ctx.flavour == "miri" || ctx.flavour == "valgrind";
        let n = if slow { ctx.budget(16 * 40, 16 * 400) } else { ctx.budget(200_000, 3_000_000) };
        for i in 0..n {
            if i % 16 == 0 && ctx.should_stop() {
                break;
            }
            if i % 50 == 0 {
                ctx.eval();
                match error_classes(&mut ctx.rng) {
                    Ok(k) => ctx.add("error_class_checks", k as u64),
                    Err((key, msg)) => {
                        if !ctx.violation(Violation { key, msg, case: serde_json::json!({"error_classes": true}) }) {
                            return;
                        }
                    }
                }
            }
            let case = gen_case(&mut ctx.rng, slow);
            ctx.eval();
            match check(&case) {
                Ok(o) => {
                    ctx.add("handler_invocations_mirrored", o.invocations as u64);
                    if o.failed {
                        ctx.count("runs_with_failure");
                    }
                    if case.hist.builder_freed_first {
                        ctx.count("history:builder_freed_before_rewriter");
                    }
                    if case.hist.strings_freed_late {
                        ctx.count("history:strings_freed_late");
                    }
                    if case.hist.no_end {
                        ctx.count("history:free_without_end");
                    }
                    if o.accessors && o.mutators {
                        ctx.nontrivial(mix(fnv(&case.base.input()), fnv(serde_json::to_string(&case).unwrap().as_bytes())));
                        ctx.sample(|| serde_json::to_value(&case).unwrap());
                    }
                }
                Err((key, msg)) => {
                    if key == "harness" {
                        panic!("{msg}");
                    }
                    if !ctx.violation(Violation { key, msg, case: serde_json::to_value(&case).unwrap() }) {
                        return;
                    }
                }
            }
        }
    }
    fn replay(&self, case: &Value) -> Result<Vec<Violation>, String> {
        if case.get("error_classes").is_some() {
            let mut rng = Rng::new(1);
            return Ok(match error_classes(&mut rng) {
                Ok(_) => vec![],
                Err((key, msg)) => vec![Violation { key, msg, case: case.clone() }],
            });
        }
        let c: Case17 = serde_json::from_value(case.clone()).map_err(|e| e.to_string())?;
        match check(&c) {
            Ok(_) => Ok(vec![]),
            Err((key, msg)) => Ok(vec![Violation { key, msg, case: case.clone() }]),
        }
    }
    fn watchdog_s(&self, tier: Tier) -> u64 {
        tier.pick(900, 3600)
    }
    fn min_nontrivial(&self, tier: Tier) -> u64 {
        tier.pick(20, 100)
    }
}
