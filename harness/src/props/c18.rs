//! C18 Deterministic and isolated instances, also across threads (run under ThreadSanitizer and Miri too).

use super::Case;
use crate::core::{show, Ctx, Prop, Tier, Violation};
use crate::engine::{self, Config, Rec, Res, RunResult};
use crate::gen::{self, SoupKind};
use crate::mutgen;
use crate::rng::{fnv, mix, Rng};
use libc::c_char;
use serde_derive::{Deserialize, Serialize};
use serde_json::Value;
use std::sync::atomic::{AtomicUsize, Ordering};
use std::sync::{Arc, Barrier};

pub struct C18;

#[derive(Clone, Debug, Serialize, Deserialize)]
pub struct Case18 {
    pub cases: Vec<Case>,
}

fn strip(log: &[Rec]) -> Vec<Rec> {
    log.iter()
        .map(|r| match r {
            Rec::Ret { res, out_len, .. } => Rec::Ret { res: res.clone(), out_len: *out_len, mem: 0 },
            other => other.clone(),
        })
        .collect()
}

fn gen_case(rng: &mut Rng, small: bool) -> Case {
    let encs = gen::ascii_compatible_encodings();
    let enc = if rng.chance(2, 3) { encoding_rs::UTF_8 } else { *rng.pick(&encs) };
    let mut cfg = Config { encoding: enc.name().to_string(), strict: rng.chance(1, 4), send: true, adjust_charset: rng.chance(1, 3), ..Default::default() };
    gen::observer_config(rng, &mut cfg);
    let rawb = rng.chance(1, 8);
    let mut input = gen::soup(rng, if small { 5 } else { 25 }, SoupKind::Any, rawb);
    match rng.below(8) {
        0 => {
            // structured document + generated selectors (structural pseudo-classes over standard and non-standard names)
            let foreign = rng.bool();
            input = crate::structgen::gen_doc(rng, &crate::structgen::Opts { foreign, max_nodes: if small { 8 } else { 24 }, ..Default::default() }).bytes;
            for _ in 0..rng.range(1, 3) {
                cfg.el.push(engine::ElH { selector: crate::selgen::gen_list(rng).css(), element: true, end_tag: rng.bool(), ..Default::default() });
            }
        }
        1 => {
            // many DISTINCT non-standard sibling names under per-type counting selectors: anything keyed by name in a
            // randomly seeded hash container shows up as run-to-run or thread-to-thread variation
            let mut v = String::from("<div>");
            let kinds = rng.range(6, 40);
            for _ in 0..rng.range(10, if small { 30 } else { 120 }) {
                let k = rng.below(kinds);
                let name = match k % 4 {
                    0 => format!("x-el{k}"),
                    1 => format!("cu{k}stom"),
                    2 => format!("averyveryverylongname{k}"),
                    _ => format!("n{k}"),
                };
                if rng.chance(1, 6) {
                    v.push_str(&format!("<{name} a{k}=v>t"));
                } else {
                    v.push_str(&format!("<{name} a{k}=v>t</{name}>"));
                }
            }
            v.push_str("</div>");
            input = v.into_bytes();
            for sel in ["*:nth-of-type(2)", ":first-of-type", "div > :nth-of-type(2n+1)", "*:nth-of-type(3) *", ":not(:nth-of-type(1))"] {
                if rng.bool() {
                    cfg.el.push(engine::ElH { selector: sel.into(), element: true, text: rng.chance(1, 4), ..Default::default() });
                }
            }
        }
        2 if rng.bool() => {
            // text runs longer than the decoder's buffer in a legacy encoding under text handlers: how a text node is cut into
            // chunks must not depend on what other rewriters of the process decoded before
            let legacy = *rng.pick(&encs);
            cfg.encoding = legacy.name().to_string();
            let good = gen::mappable_chars(legacy);
            let mut v: Vec<u8> = vec![];
            for _ in 0..rng.range(1, 3) {
                v.extend(b"<p>");
                let mut t = String::new();
                for _ in 0..rng.range(600, if small { 2500 } else { 6000 }) {
                    if !good.is_empty() && rng.chance(1, 3) {
                        t.push(*rng.pick(&good));
                    } else {
                        t.push(*rng.pick(&['a', ' ', 'z', '.']));
                    }
                }
                v.extend(legacy.encode(&t).0.iter());
                v.extend(b"</p>");
            }
            input = v;
            cfg.doc.push(engine::DocH { text: true, ..Default::default() });
        }
        _ => {}
    }
    if rng.bool() {
        if let Ok(dry) = engine::run(&cfg, &input, &[]) {
            mutgen::script_from_dry_run(rng, &mut cfg, &dry, 3);
        }
    }
    match rng.below(6) {
        0 => cfg.fail_at = Some(rng.range(1, 10)),
        1 | 2 => {
            // a finite limit with a zero or non-zero preallocation (never above the limit: debug-build precondition)
            let m = rng.range(8, 400);
            cfg.max_mem = Some(m);
            cfg.prealloc = Some(*rng.pick(&[0usize, 1, 8, 16, 64]).min(&m));
        }
        _ => {}
    }
    cfg.graceful_handler = rng.bool();
    cfg.graceful_mem = rng.bool();
    cfg.bail = rng.below(2);
    cfg.bail_append = true;
    let cuts = gen::random_cuts(rng, input.len());
    Case::new(&cfg, &input, &cuts)
}

/// a rewrite that fails inside a user handler on a `<meta charset>` element while the charset adjustment is on (leaves
/// any per-thread hand-over state of the encoding change behind if there is one)
fn gen_meta_fail_case(rng: &mut Rng) -> Case {
    let mut cfg = Config { send: true, adjust_charset: true, graceful_handler: rng.bool(), ..Default::default() };
    cfg.el.push(engine::ElH { selector: (*rng.pick(&["meta", "*", "[charset]", "head *"])).to_string(), element: true, ..Default::default() });
    let mut input = gen::soup(rng, 3, SoupKind::HtmlOnly, false);
    input.extend_from_slice(rng.pick(&["<head><meta charset=windows-1251>", "<head><meta charset=\"shift_jis\">", "<head><meta http-equiv=content-type content=\"text/html; charset=koi8-r\">"]).as_bytes());
    input.extend(gen::soup(rng, 3, SoupKind::HtmlOnly, false));
    // fail at the invocation that handles the meta element (found by a dry run)
    if let Ok(dry) = engine::run(&cfg, &input, &[]) {
        let mut k = 0;
        for r in &dry.log {
            if let Rec::El(e) = r {
                k += 1;
                if e.name == "meta" && e.attrs.iter().any(|a| a.name == "charset" || a.name == "content") {
                    cfg.fail_at = Some(k);
                    break;
                }
            }
        }
    }
    let cuts = gen::random_cuts(rng, input.len());
    Case::new(&cfg, &input, &cuts)
}

/// fixed probe rewrites whose result must not depend on what ran before on the same thread
fn probes() -> Vec<(Config, Vec<u8>)> {
    let obs = |adjust: bool| Config {
        send: true,
        adjust_charset: adjust,
        el: vec![engine::ElH { selector: "*".into(), element: true, text: true, comments: true, ..Default::default() }],
        doc: vec![engine::DocH { text: true, comments: true, doctype: true, end: true, ..Default::default() }],
        ..Default::default()
    };
    vec![
        (obs(false), "<!doctype html><p title=\u{e9}>h\u{e9}llo \u{43f}\u{440}\u{438}\u{432}\u{435}\u{442}</p><!-- c\u{e9} --><b>x</b>".as_bytes().to_vec()),
        (obs(true), "<head><meta charset=utf-8><title>t\u{e9}</title></head><p>\u{e9}\u{e8}</p>".as_bytes().to_vec()),
        (Config { send: true, ..Default::default() }, "<p>plain \u{e9}</p>".as_bytes().to_vec()),
    ]
}

fn run_probes() -> Result<Vec<Vec<Rec>>, String> {
    probes().iter().map(|(c, i)| engine::run(c, i, &[3, 17]).map(|r| strip(&r.log))).collect()
}

pub struct Obs {
    pub max_in_flight: usize,
    pub threads: usize,
}

/// runs every case sequentially (reference), then all of them concurrently on their own threads with staggered
/// yields, then each one migrating between threads; everything must be identical
pub fn check(c: &Case18, seed: u64) -> Result<Obs, (String, String)> {
    let n = c.cases.len();
    let mut reference: Vec<Vec<Rec>> = vec![];
    // what the probe rewrites give on a thread without any history
    let fresh_probes = std::thread::scope(|sc| sc.spawn(run_probes).join().unwrap_or_else(|_| Err("probe thread panicked".into()))).map_err(|e| ("harness".to_string(), e))?;
    for case in &c.cases {
        let r = engine::run(&case.cfg, &case.input(), &case.cuts).map_err(|e| ("harness".to_string(), e))?;
        // repeat: a rewrite is a pure function of configuration and input
        let r2 = engine::run(&case.cfg, &case.input(), &case.cuts).map_err(|e| ("harness".to_string(), e))?;
        if strip(&r.log) != strip(&r2.log) {
            return Err(("not-repeatable".into(), format!("two sequential runs of the same rewrite differ: {}\n input: {}", crate::norm::first_diff(&strip(&r.log), &strip(&r2.log)), show(&case.input()))));
        }
        reference.push(strip(&r.log));
        // instances share no state: whatever this rewrite did (incl. failing half-way) leaves nothing behind on this thread
        let after = run_probes().map_err(|e| ("harness".to_string(), e))?;
        if after != fresh_probes {
            let k = (0..after.len()).find(|&k| after[k] != fresh_probes[k]).unwrap_or(0);
            return Err((
                "rewrite-leaves-state-on-its-thread".into(),
                format!("a fixed probe rewrite run on the same thread right after this rewrite differs from the same probe on a fresh thread: {}\n the rewrite before it: input {} config {}", crate::norm::first_diff(&fresh_probes[k], &after[k]), show(&case.input()), serde_json::to_string(&case.cfg).unwrap().chars().take(600).collect::<String>()),
            ));
        }
    }
    // concurrent
    let in_flight = Arc::new(AtomicUsize::new(0));
    let max_in_flight = Arc::new(AtomicUsize::new(0));
    let barrier = Arc::new(Barrier::new(n));
    let mut results: Vec<Option<Result<RunResult, String>>> = (0..n).map(|_| None).collect();
    std::thread::scope(|sc| {
        let mut hs = vec![];
        for (i, case) in c.cases.iter().enumerate() {
            let barrier = barrier.clone();
            let in_flight = in_flight.clone();
            let max_in_flight = max_in_flight.clone();
            hs.push(sc.spawn(move || {
                let mut rng = Rng::new(mix(seed, i as u64));
                barrier.wait();
                let input = case.input();
                // drive write by write so that yields can be injected between the calls: use the migrating driver's
                // structure but on this thread: split into single-write runs is not possible (state), so use a
                // dedicated loop through engine::run with an in-flight counter around the whole run plus yields
                let k = in_flight.fetch_add(1, Ordering::SeqCst) + 1;
                max_in_flight.fetch_max(k, Ordering::SeqCst);
                for _ in 0..rng.below(4) {
                    std::thread::yield_now();
                }
                let r = engine::run(&case.cfg, &input, &case.cuts);
                in_flight.fetch_sub(1, Ordering::SeqCst);
                r
            }));
        }
        for (i, h) in hs.into_iter().enumerate() {
            results[i] = Some(h.join().unwrap_or_else(|_| Err("thread panicked".into())));
        }
    });
    for (i, r) in results.into_iter().enumerate() {
        let r = r.unwrap().map_err(|e| ("harness".to_string(), e))?;
        if strip(&r.log) != reference[i] {
            return Err((
                "concurrent-run-differs".into(),
                format!("rewriter {i} of {n} running concurrently with the others differs from its sequential run: {}\n input: {}", crate::norm::first_diff(&reference[i], &strip(&r.log)), show(&c.cases[i].input())),
            ));
        }
    }
    // migration between threads after every write
    for (i, case) in c.cases.iter().enumerate().take(2) {
        let mut rng = Rng::new(mix(seed, 77 + i as u64));
        let r = engine::run_migrating(&case.cfg, &case.input(), &case.cuts, &mut || {
            if rng.bool() {
                std::thread::yield_now();
            }
        })
        .map_err(|e| ("harness".to_string(), e))?;
        if strip(&r.log) != reference[i] {
            return Err(("migrating-run-differs".into(), format!("a send::HtmlRewriter moved to another thread after every write differs from its single-thread run: {}\n input: {}", crate::norm::first_diff(&reference[i], &strip(&r.log)), show(&case.input()))));
        }
    }
    Ok(Obs { max_in_flight: max_in_flight.load(Ordering::SeqCst), threads: n })
}

/// concurrent selector parsing + C API last-error isolation, choreographed with barriers
pub fn isolation(rng: &mut Rng) -> Result<usize, (String, String)> {
    let sels: Vec<String> = (0..8).map(|_| if rng.bool() { (*rng.pick(gen::OBS_SELECTORS)).to_string() } else { crate::props::c15::gen_selector_string(rng) }).collect();
    let expected: Vec<bool> = sels.iter().map(|s| std::panic::catch_unwind(|| s.parse::<lol_html::Selector>().is_ok()).unwrap_or(false)).collect();
    let b = Arc::new(Barrier::new(4));
    let mut bad: Option<String> = None;
    std::thread::scope(|sc| {
        let hs: Vec<_> = (0..4)
            .map(|_| {
                let b = b.clone();
                let sels = &sels;
                sc.spawn(move || {
                    b.wait();
                    sels.iter().map(|s| std::panic::catch_unwind(|| s.parse::<lol_html::Selector>().is_ok()).unwrap_or(false)).collect::<Vec<bool>>()
                })
            })
            .collect();
        for h in hs {
            if h.join().unwrap() != expected {
                bad = Some("concurrent Selector parsing gave a different result than sequential parsing".into());
            }
        }
    });
    if let Some(m) = bad {
        return Err(("selector-parsing-not-isolated".into(), m));
    }
    // last-error ping-pong
    let b1 = Arc::new(Barrier::new(2));
    let b2 = Arc::new(Barrier::new(2));
    let take = || -> Option<String> {
        unsafe {
            let s = lolhtml::errors::lol_html_take_last_error();
            let (data, len): (*const c_char, usize) = std::mem::transmute_copy(&s);
            let r = if data.is_null() { None } else { Some(String::from_utf8_lossy(std::slice::from_raw_parts(data as *const u8, len)).into_owned()) };
            lolhtml::string::lol_html_str_free(s);
            r
        }
    };
    let mut problem: Option<String> = None;
    std::thread::scope(|sc| {
        let (b1a, b2a) = (b1.clone(), b2.clone());
        let a = sc.spawn(move || {
            let _ = take();
            // thread A records an error
            let bad = b"div\xff";
            unsafe {
                let p = lolhtml::selector::lol_html_selector_parse(bad.as_ptr() as *const c_char, bad.len());
                assert!(p.is_null());
            }
            b1a.wait(); // B now looks at its own last error
            b2a.wait(); // B is done
            take()
        });
        let (b1b, b2b) = (b1.clone(), b2.clone());
        let bt = sc.spawn(move || {
            let _ = take();
            b1b.wait();
            let seen = take(); // must be None: A's error is not visible here, and taking here must not clear A's
            b2b.wait();
            seen
        });
        let a_err = a.join().unwrap();
        let b_seen = bt.join().unwrap();
        if b_seen.is_some() {
            problem = Some(format!("an error recorded on thread A was visible on thread B: {b_seen:?}"));
        } else if a_err.is_none() {
            problem = Some("an error recorded on thread A was cleared by thread B".into());
        }
    });
    if let Some(m) = problem {
        return Err(("last-error-not-thread-local".into(), m));
    }
    twins(rng)?;
    Ok(3)
}

/// Two configurations whose selectors differ minimally (one ASCII-case flip, one appended / dropped / substituted character)
/// in a class, id or attribute value
/// must keep behaving as two different configurations whatever was parsed or run before in this process or
/// concurrently on other threads (a process-wide cache keyed too coarsely would merge them).
pub fn twins(rng: &mut Rng) -> Result<(), (String, String)> {
    let len = rng.range(2, 7);
    let t: String = (0..len).map(|_| (b'a' + rng.below(26) as u8) as char).collect();
    let k = rng.below(len);
    // the twin differs by one ASCII-case flip, an appended character, a dropped last character or one substituted character
    let t2: String = match rng.below(4) {
        0 | 1 => t.chars().enumerate().map(|(i, c)| if i == k { c.to_ascii_uppercase() } else { c }).collect(),
        2 => format!("{t}x"),
        _ if len > 2 && rng.bool() => t[..len - 1].to_string(),
        _ => t.chars().enumerate().map(|(i, c)| if i == k { if c == 'q' { 'r' } else { 'q' } } else { c }).collect(),
    };
    let kind = rng.below(3);
    let sel = |v: &str| match kind {
        0 => format!(".{v}"),
        1 => format!("#{v}"),
        _ => format!("[data-k=\"{v}\"]"),
    };
    let doc = format!("<p class=\"{t}\" id=\"{t}\" data-k=\"{t}\">a</p><p class=\"{t2}\" id=\"{t2}\" data-k=\"{t2}\">b</p>");
    let second = doc.find("</p>").unwrap() + 4;
    let run = |s: String| -> Result<Vec<usize>, String> {
        let cfg = Config { send: true, el: vec![engine::ElH { selector: s, element: true, ..Default::default() }], ..Default::default() };
        let r = engine::run(&cfg, doc.as_bytes(), &[])?;
        Ok(r.log.iter().filter_map(|r| if let Rec::El(e) = r { Some(e.start) } else { None }).collect())
    };
    let order: [(&str, usize); 2] = if rng.bool() { [(&t, 0), (&t2, second)] } else { [(&t2, second), (&t, 0)] };
    let describe = |v: &str, got: &[usize], want: usize| format!("selector {:?} on {doc:?} matched the start tags at {got:?}, expected exactly the one at {want} (its case twin was parsed in the same process)", sel(v));
    for (v, want) in order {
        let got = run(sel(v)).map_err(|e| ("harness".to_string(), e))?;
        if got != vec![want] {
            return Err(("case-twin-configurations-merged".into(), describe(v, &got, want)));
        }
    }
    // and concurrently, parsed at the same moment on two threads
    let b = Arc::new(Barrier::new(2));
    let mut bad: Option<String> = None;
    std::thread::scope(|sc| {
        let hs: Vec<_> = order
            .iter()
            .map(|&(v, want)| {
                let b = b.clone();
                let run = &run;
                let s = sel(v);
                sc.spawn(move || {
                    b.wait();
                    (run(s), want, v)
                })
            })
            .collect();
        for h in hs {
            let (got, want, v) = h.join().unwrap();
            match got {
                Ok(g) if g == vec![want] => {}
                Ok(g) => bad = Some(describe(v, &g, want)),
                Err(e) => bad = Some(e),
            }
        }
    });
    if let Some(m) = bad {
        return Err(("case-twin-configurations-merged".into(), m));
    }
    Ok(())
}

impl Prop for C18 {
    fn id(&self) -> &'static str {
        "C18"
    }
    fn rule(&self) -> String {
        "groups of 2-6 generated rewrites (send handler types; tag soup, structured documents with generated selectors, sibling runs over 6-40 distinct non-standard element names under per-type counting selectors, and 0.6-6 KiB text runs in legacy encodings under text handlers; observers and mutating scripts; injected failures and memory limits; bail-out handlers): each is run twice sequentially (must be identical) and followed on the same thread by fixed probe rewrites that must equal their run on a fresh thread (nothing is left behind, also after a failure inside a handler on a meta charset element), then all of them concurrently on their own threads released by a barrier with random yields (each must equal its sequential run), then as a send::HtmlRewriter moved to a freshly spawned thread for every write() and for end(); concurrent Selector parsing on 4 threads; case-twin selectors (differing only in the ASCII case of a class / id / attribute value) run after each other and concurrently must stay distinct; C API last-error ping-pong choreographed with barriers; the same workload runs under ThreadSanitizer (any report fails the run) and, small, under Miri's data-race detector; non-trivial: >= 2 threads were inside lol-html at the same time (in-flight counter); distinct = hash(group)".into()
    }
    fn assumptions(&self) -> Vec<String> {
        vec!["a future global guarded by a lock that does not change results is invisible to this family".into()]
    }
    fn run_shard(&self, ctx: &mut Ctx<'_>) {
        let slow = ctx.flavour == "miri";
        // Miri: 16 single-shard processes, the driver divides VERIF_SCALE by 16: 6 / 40 groups per process
        let n = if slow { ctx.budget(16 * 6, 16 * 40) } else { ctx.budget(5_000, 120_000) };
        for i in 0..n {
            if i % 8 == 0 && ctx.should_stop() {
                break;
            }
            if i % 20 == 0 {
                ctx.eval();
                match isolation(&mut ctx.rng) {
                    Ok(k) => ctx.add("isolation_choreographies", k as u64),
                    Err((key, msg)) => {
                        if !ctx.violation(Violation { key, msg, case: serde_json::json!({"isolation": true}) }) {
                            return;
                        }
                    }
                }
            }
            let k = if slow { 2 } else { ctx.rng.range(2, 6) };
            let case = Case18 { cases: (0..k).map(|j| if j == 0 && ctx.rng.chance(1, 5) { gen_meta_fail_case(&mut ctx.rng) } else { gen_case(&mut ctx.rng, slow) }).collect() };
            ctx.eval();
            match check(&case, ctx.seed ^ i) {
                Ok(o) => {
                    ctx.add("rewrites_run_concurrently", o.threads as u64);
                    ctx.count(&format!("max_in_flight_{}", o.max_in_flight.min(6)));
                    if o.max_in_flight >= 2 {
                        ctx.nontrivial(fnv(serde_json::to_string(&case).unwrap().as_bytes()));
                        ctx.sample(|| serde_json::json!({"group_of": o.threads, "first_input": show(&case.cases[0].input())}));
                    }
                }
                Err((key, msg)) => {
                    if key == "harness" {
                        panic!("{msg}");
                    }
                    if !ctx.violation(Violation { key, msg, case: serde_json::to_value(&case).unwrap() }) {
                        return;
                    }
                }
            }
        }
    }
    fn replay(&self, case: &Value) -> Result<Vec<Violation>, String> {
        if case.get("isolation").is_some() {
            let mut rng = Rng::new(1);
            return Ok(match isolation(&mut rng) {
                Ok(_) => vec![],
                Err((key, msg)) => vec![Violation { key, msg, case: case.clone() }],
            });
        }
        let c: Case18 = serde_json::from_value(case.clone()).map_err(|e| e.to_string())?;
        // interleavings vary: try a few times
        for k in 0..20 {
            if let Err((key, msg)) = check(&c, k) {
                return Ok(vec![Violation { key, msg, case: case.clone() }]);
            }
        }
        Ok(vec![])
    }
    fn watchdog_s(&self, tier: Tier) -> u64 {
        tier.pick(900, 3600)
    }
    fn shards(&self) -> usize {
        4
    }
    fn min_nontrivial(&self, tier: Tier) -> u64 {
        tier.pick(20, 100)
    }
}
