pub mod c01;
pub mod c02;
pub mod c03;
pub mod c04;
pub mod c05;
pub mod c06;
pub mod c07;
pub mod c08;
pub mod c09;
pub mod c10;
pub mod c11;
pub mod c12;
pub mod c13;
pub mod c14;
pub mod c15;
pub mod c16;
pub mod c17;
pub mod c18;

use crate::core::Prop;
use crate::engine::Config;
use serde_derive::{Deserialize, Serialize};

/// The replayable description shared by most properties.
#[derive(Clone, Debug, Serialize, Deserialize)]
pub struct Case {
    pub cfg: Config,
    pub input_hex: String,
    pub cuts: Vec<usize>,
    #[serde(default)]
    pub note: String,
}

impl Case {
    pub fn new(cfg: &Config, input: &[u8], cuts: &[usize]) -> Self {
        Case { cfg: cfg.clone(), input_hex: crate::core::hex(input), cuts: cuts.to_vec(), note: String::new() }
    }
    pub fn input(&self) -> Vec<u8> {
        crate::core::unhex(&self.input_hex)
    }
    pub fn to_value(&self) -> serde_json::Value {
        let mut v = serde_json::to_value(self).unwrap();
        v["input_text"] = serde_json::Value::String(crate::core::show(&self.input()));
        v
    }
}

pub fn all() -> Vec<Box<dyn Prop>> {
    vec![Box::new(c01::C01), Box::new(c02::C02), Box::new(c03::C03), Box::new(c04::C04), Box::new(c05::C05), Box::new(c06::C06), Box::new(c07::C07), Box::new(c08::C08), Box::new(c09::C09), Box::new(c10::C10), Box::new(c11::C11), Box::new(c12::C12), Box::new(c13::C13), Box::new(c14::C14), Box::new(c15::C15), Box::new(c16::C16), Box::new(c17::C17), Box::new(c18::C18)]
}
