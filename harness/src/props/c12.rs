//! C12 Fail-stop and sink protocol: an online automaton over the ordered log of sink calls and API results.

use super::Case;
use crate::core::{show, Ctx, Prop, Tier, Violation};
use crate::engine::{self, Config, Content, DocH, ElH, ErrKind, Op, Rec, Res, RunResult, ScriptEntry, Sub};
use crate::gen::{self, SoupKind};
use crate::mutgen;
use crate::rng::{fnv, mix, Rng};
use serde_json::Value;

pub struct C12;

#[derive(Default, Debug)]
pub struct Obs {
    pub writes: usize,
    pub failed: bool,
    pub enc_switches: usize,
    pub doc_end_append: bool,
    pub final_chunks: usize,
    pub graceful_flush: bool,
    pub probe_panicked: bool,
}

/// the sink automaton
pub fn automaton(r: &RunResult, cfg: &Config) -> Result<Obs, (String, String)> {
    let mut o = Obs::default();
    let mut enc_seen = 0usize;
    let mut in_end = false;
    let mut errored = false;
    let mut final_seen = false;
    let mut in_call = false;
    for (i, rec) in r.log.iter().enumerate() {
        match rec {
            Rec::Enc(_) => {
                if errored {
                    return Err(("sink-call-after-error".into(), format!("set_encoding after an error was returned (log index {i})")));
                }
                if final_seen {
                    return Err(("sink-call-after-final-chunk".into(), format!("set_encoding after the final chunk (log index {i})")));
                }
                enc_seen += 1;
            }
            Rec::Chunk(c) => {
                if enc_seen == 0 {
                    return Err(("chunk-before-set-encoding".into(), format!("the sink received a chunk before set_encoding (log index {i})")));
                }
                if errored {
                    return Err(("sink-call-after-error".into(), format!("the sink received {} bytes after an error was returned (log index {i})", c.len())));
                }
                if final_seen {
                    return Err(("sink-call-after-final-chunk".into(), format!("the sink received a chunk after the zero-length final chunk (log index {i})")));
                }
                if !in_call {
                    return Err(("sink-call-outside-api-call".into(), format!("the sink received a chunk outside write()/end() (log index {i})")));
                }
                if c.is_empty() {
                    if !in_end {
                        return Err(("empty-chunk-mid-stream".into(), format!("the sink received a zero-length chunk during write() (log index {i}); it is documented as the end-of-output marker")));
                    }
                    // must be the last sink call of a successful end(): checked when Ret arrives
                    o.final_chunks += 1;
                    final_seen = true;
                }
            }
            Rec::CallWrite(_) => {
                in_call = true;
                o.writes += 1;
            }
            Rec::CallEnd => {
                in_call = true;
                in_end = true;
            }
            Rec::Ret { res, .. } => {
                in_call = false;
                match res {
                    Res::Ok => {
                        if in_end && o.final_chunks != 1 {
                            return Err(("final-chunk-count".into(), format!("successful end() delivered {} zero-length chunks (must be exactly 1)", o.final_chunks)));
                        }
                    }
                    Res::Err(_) => {
                        errored = true;
                        o.failed = true;
                        if final_seen {
                            // zero-length chunk delivered although end() failed
                            return Err(("final-chunk-on-failed-end".into(), "end() returned an error after delivering the zero-length final chunk".into()));
                        }
                    }
                    Res::Panic(m) => {
                        return Err(("panic".into(), format!("panic: {m}")));
                    }
                }
            }
            Rec::Probe { panicked } => {
                o.probe_panicked = *panicked;
                if !*panicked {
                    return Err(("use-after-error-does-not-panic".into(), "write(b\"\") / write(data) / end() after a returned error did not panic (probes run in that order)".into()));
                }
            }
            Rec::DocEnd { .. } => {}
            Rec::Bail { .. } => o.graceful_flush = true,
            _ => {}
        }
    }
    if final_seen && !in_end {
        return Err(("final-chunk-count".into(), "zero-length chunk without end()".into()));
    }
    let max_enc = if cfg.adjust_charset { 2 } else { 1 };
    if enc_seen > max_enc {
        return Err(("too-many-set-encoding".into(), format!("set_encoding called {enc_seen} times")));
    }
    o.enc_switches = enc_seen.saturating_sub(1);
    o.doc_end_append = cfg.script.iter().any(|e| e.sub == Sub::End) || cfg.doc.iter().any(|d| !d.always_end.is_empty());
    Ok(o)
}

pub fn check(cfg: &Config, input: &[u8], cuts: &[usize]) -> Result<Obs, (String, String)> {
    let mut cfg = cfg.clone();
    cfg.probe_after_error = true;
    let r = engine::run(&cfg, input, cuts).map_err(|e| ("harness".to_string(), e))?;
    let o = automaton(&r, &cfg).map_err(|(k, m)| (k, format!("{m}\n input: {}\n cuts: {cuts:?}", show(input))))?;
    // without graceful bail-out, what was emitted before a failure is a prefix of the complete run's output
    if o.failed && !o.graceful_flush {
        let gr = match r.final_res() {
            Res::Err(ErrKind::Mem) => cfg.graceful_mem,
            Res::Err(ErrKind::Handler(_)) => cfg.graceful_handler,
            _ => false,
        };
        if !gr {
            let mut full = cfg.clone();
            full.fail_at = None;
            full.max_mem = None;
            full.probe_after_error = false;
            let f = engine::run(&full, input, cuts).map_err(|e| ("harness".to_string(), e))?;
            // the complete run may itself fail for another reason (e.g. strict mode); then compare against what it emitted
            let fo = f.out();
            let out = r.out();
            if matches!(r.final_res(), Res::Err(ErrKind::Ambiguity)) {
                // same failure in both runs
            } else if !fo.starts_with(&out) && f.ok() {
                return Err((
                    "emitted-not-a-prefix".into(),
                    format!("no graceful bail-out, yet the bytes emitted before the failure are not a prefix of the complete run's output\n input: {}\n cuts: {cuts:?}\n emitted:  {}\n complete: {}", show(input), show(&out), show(&fo)),
                ));
            }
        }
    }
    Ok(o)
}

fn empty_ops(rng: &mut Rng, cfg: &mut Config, dry: &RunResult) {
    // serialisation corner cases: empty strings everywhere
    for rec in &dry.log {
        match rec {
            Rec::Comment { hid, start, .. } if rng.chance(1, 2) => {
                let op = match rng.below(4) {
                    0 => Op::SetText(String::new()),
                    1 => Op::Before(Content::html("")),
                    2 => Op::Replace(Content::text("")),
                    _ => Op::After(Content::html("")),
                };
                cfg.script.push(ScriptEntry { hid: *hid, sub: Sub::Comment, offset: *start, ops: vec![op] });
            }
            Rec::El(e) if rng.chance(1, 2) => {
                let op = match rng.below(8) {
                    0 => Op::SetAttr("a".into(), String::new()),
                    1 => Op::Prepend(Content::html("")),
                    2 => Op::Append(Content::text("")),
                    3 => Op::SetInner(Content::html("")),
                    4 => Op::Replace(Content::html("")),
                    5 => Op::Before(Content { s: String::new(), html: true, streaming: true }),
                    6 => Op::OnEndTag(vec![Op::Before(Content::html("")), Op::After(Content::text(""))]),
                    _ => Op::StAfter(Content::text("")),
                };
                cfg.script.push(ScriptEntry { hid: e.hid, sub: Sub::El, offset: e.start, ops: vec![op] });
            }
            Rec::Text { hid, start, .. } if rng.chance(1, 3) => {
                let op = match rng.below(3) {
                    0 => Op::Replace(Content::html("")),
                    1 => Op::Before(Content::text("")),
                    _ => Op::After(Content::html("")),
                };
                cfg.script.push(ScriptEntry { hid: *hid, sub: Sub::Text, offset: *start, ops: vec![op] });
            }
            Rec::DocEnd { hid, .. } if rng.bool() => {
                cfg.script.push(ScriptEntry { hid: *hid, sub: Sub::End, offset: 0, ops: vec![Op::Append(Content::html(""))] });
            }
            _ => {}
        }
    }
}

pub fn gen_cfg(rng: &mut Rng) -> Config {
    let mut cfg = Config { strict: rng.chance(1, 5), adjust_charset: rng.chance(1, 3), ..Default::default() };
    match rng.below(5) {
        0 => {}
        1 => {
            cfg.doc.push(DocH { doctype: true, comments: true, text: true, end: true, ..Default::default() });
            cfg.el.push(ElH { selector: "*".into(), element: true, text: rng.bool(), comments: rng.bool(), end_tag: true, ..Default::default() });
        }
        _ => gen::observer_config(rng, &mut cfg),
    }
    cfg
}

impl Prop for C12 {
    fn id(&self) -> &'static str {
        "C12"
    }
    fn rule(&self) -> String {
        "histories write*;end over soup/structured inputs (incl. empty writes and empty documents) with observers and mutating scripts (incl. empty strings in every insertion API), failures injected at handler invocation indices and by small memory limits, graceful flags on/off, meta-charset switching on/off; every history is run through the sink automaton (set_encoding first; zero-length chunk exactly once as the last call of a successful end(); nothing after an error; use-after-error panics) and, without graceful flags, the emitted bytes are compared with the complete run's output (prefix); non-trivial: >= 2 writes and (a failure, a document-end append or an encoding switch); distinct = hash(input, schedule, config)".into()
    }
    fn run_shard(&self, ctx: &mut Ctx<'_>) {
        let n = ctx.budget(2_000_000, 80_000_000);
        for i in 0..n {
            if i % 32 == 0 && ctx.should_stop() {
                break;
            }
            let mut cfg = gen_cfg(&mut ctx.rng);
            let mut input = if ctx.rng.chance(1, 30) {
                vec![]
            } else {
                let rawb = ctx.rng.chance(1, 8);
                gen::soup(&mut ctx.rng, 20, SoupKind::Any, rawb)
            };
            if cfg.adjust_charset && ctx.rng.bool() {
                let meta: &[u8] = *ctx.rng.pick(&[&b"<meta charset=windows-1251>"[..], b"<meta charset='Shift_JIS'>", b"<meta http-equiv=content-type content='text/html; charset=koi8-r'>", b"<meta charset=utf-16>", b"<meta charset=bogus>", b"<META CHARSET=latin1>"]);
                let at = ctx.rng.below(input.len() + 1);
                let tail = input.split_off(at);
                input.extend_from_slice(meta);
                input.extend(tail);
            }
            let cuts = gen::random_cuts(&mut ctx.rng, input.len());
            // mutations
            let dry = match engine::run(&cfg, &input, &[]) {
                Ok(d) => d,
                Err(e) => panic!("{e}"),
            };
            match ctx.rng.below(4) {
                0 => {}
                1 => empty_ops(&mut ctx.rng, &mut cfg, &dry),
                _ => mutgen::script_from_dry_run(&mut ctx.rng, &mut cfg, &dry, 3),
            }
            // failure injection
            let mode = ctx.rng.below(6);
            match mode {
                0 | 1 => {}
                2 | 3 => {
                    if dry.invocations > 0 {
                        cfg.fail_at = Some(ctx.rng.range(1, dry.invocations));
                    }
                }
                _ => {
                    cfg.max_mem = Some(ctx.rng.below(200));
                    cfg.prealloc = Some(0);
                }
            }
            if ctx.rng.bool() {
                cfg.graceful_handler = ctx.rng.bool();
                cfg.graceful_mem = ctx.rng.bool();
                cfg.bail = ctx.rng.below(3);
                cfg.bail_append = ctx.rng.bool();
            }
            ctx.eval();
            match check(&cfg, &input, &cuts) {
                Ok(o) => {
                    if o.failed {
                        ctx.count("histories_with_failure");
                    }
                    if o.graceful_flush {
                        ctx.count("histories_with_graceful_bailout");
                    }
                    if o.probe_panicked {
                        ctx.count("use_after_error_panicked");
                    }
                    if o.enc_switches > 0 {
                        ctx.count("histories_with_encoding_switch");
                    }
                    if o.final_chunks == 1 {
                        ctx.count("histories_with_final_chunk");
                    }
                    if o.writes >= 2 && (o.failed || o.doc_end_append || o.enc_switches > 0) {
                        ctx.nontrivial(mix(mix(fnv(&input), fnv(format!("{cuts:?}").as_bytes())), fnv(serde_json::to_string(&cfg).unwrap().as_bytes())));
                        ctx.sample(|| Case::new(&cfg, &input, &cuts).to_value());
                    }
                }
                Err((key, msg)) => {
                    if key == "harness" {
                        panic!("{msg}");
                    }
                    let k2 = key.clone();
                    let (i2, c2) = crate::core::shrink_input(&input, &cuts, &mut |i, c| matches!(check(&cfg, i, c), Err((k, _)) if k == k2));
                    let msg = match check(&cfg, &i2, &c2) {
                        Err((_, m)) => m,
                        _ => msg,
                    };
                    if !ctx.violation(Violation { key, msg, case: Case::new(&cfg, &i2, &c2).to_value() }) {
                        return;
                    }
                }
            }
        }
    }
    fn replay(&self, case: &Value) -> Result<Vec<Violation>, String> {
        let c: Case = serde_json::from_value(case.clone()).map_err(|e| e.to_string())?;
        match check(&c.cfg, &c.input(), &c.cuts) {
            Ok(_) => Ok(vec![]),
            Err((key, msg)) => Ok(vec![Violation { key, msg, case: case.clone() }]),
        }
    }
    fn watchdog_s(&self, tier: Tier) -> u64 {
        tier.pick(300, 2400)
    }
}
