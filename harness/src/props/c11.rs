//! C11 Graceful bail-out: at any failure point no received byte is lost or duplicated.
//! Fault enumeration: every handler invocation index, and memory-limit sweeps.

use super::Case;
use crate::core::{show, Ctx, Prop, Tier, Violation};
use crate::engine::{self, Config, Content, DocH, ElH, ErrKind, Op, Rec, Res, RunResult};
use crate::gen::{self, SoupKind};
use crate::props::c10;
use crate::rng::{fnv, mix, Rng};
use serde_json::Value;

pub struct C11;

const OPEN: char = '\u{27e6}';
const CLOSE: char = '\u{27e7}';

/// extracts the sequence of ids `⟦…⟧` and the text with ids stripped
pub fn split_ids(out: &[u8]) -> (Vec<String>, Vec<u8>) {
    let mut ids = vec![];
    let mut stripped = Vec::with_capacity(out.len());
    let open = OPEN.to_string();
    let close = CLOSE.to_string();
    let (ob, cb) = (open.as_bytes(), close.as_bytes());
    let mut i = 0;
    while i < out.len() {
        if out[i..].starts_with(ob) {
            if let Some(rel) = find(&out[i + ob.len()..], cb) {
                let id = String::from_utf8_lossy(&out[i + ob.len()..i + ob.len() + rel]).into_owned();
                ids.push(id);
                i += ob.len() + rel + cb.len();
                continue;
            }
        }
        stripped.push(out[i]);
        i += 1;
    }
    (ids, stripped)
}

fn find(h: &[u8], n: &[u8]) -> Option<usize> {
    h.windows(n.len()).position(|w| w == n)
}

#[derive(Default, Debug)]
pub struct Obs {
    pub error: bool,
    pub unemitted_at_error: usize,
    pub site: Option<String>,
    pub bailed: bool,
    pub marker_position_checked: bool,
    pub dup_exception: bool,
    pub kind: String,
}

fn fail_site(r: &RunResult) -> Option<String> {
    r.hook.iter().find_map(|e| match e {
        lol_html::verif::Event::FailAppend => Some("append".to_string()),
        lol_html::verif::Event::FailParse => Some("parse".to_string()),
        lol_html::verif::Event::FailInitWith => Some("init_with".to_string()),
        lol_html::verif::Event::FailParseInEnd => Some("end-parse".to_string()),
        _ => None,
    })
}

/// `inserting`: handlers insert unique ids (Before on elements / first text chunk / comments)
pub fn check(cfg: &Config, input: &[u8], cuts: &[usize], complete: &RunResult) -> Result<Obs, (String, String)> {
    let r = engine::run(cfg, input, cuts).map_err(|e| ("harness".to_string(), e))?;
    let mut o = Obs::default();
    let res = r.final_res();
    let ctxs = || format!("\n input: {}\n cuts: {cuts:?} fail_at: {:?} max_mem: {:?} flags: mem={} handler={}", show(input), cfg.fail_at, cfg.max_mem, cfg.graceful_mem, cfg.graceful_handler);
    let kind = match &res {
        Res::Ok => return Ok(o),
        Res::Panic(m) => return Err(("panic".into(), format!("panic: {m}{}", ctxs()))),
        Res::Err(k) => k.clone(),
    };
    // "each flag enables recovery only for its own error kind" presupposes that a failure is reported under its own kind:
    // when no handler was told to fail, a ContentHandlerError can only be a mislabelled memory / internal failure
    if let ErrKind::Handler(m) = &kind {
        if cfg.fail_at.is_none() && !m.contains("injected") {
            return Err(("failure-reported-under-another-error-kind".into(), format!("no handler returned an error, yet the run failed with ContentHandlerError({m}){}", ctxs())));
        }
    }
    o.error = true;
    o.kind = format!("{kind:?}").split('(').next().unwrap().to_string();
    o.site = fail_site(&r);
    let should_bail = match kind {
        ErrKind::Mem => cfg.graceful_mem,
        ErrKind::Handler(_) => cfg.graceful_handler,
        ErrKind::Ambiguity => false,
    };
    let bails: Vec<usize> = r.log.iter().filter_map(|x| if let Rec::Bail { idx, .. } = x { Some(*idx) } else { None }).collect();
    let graceful_event = r.hook.iter().any(|e| matches!(e, lol_html::verif::Event::GracefulBailOut));
    let out = r.out();
    let rest = &input[r.written.min(input.len())..];
    let complete_out = complete.out();
    // the end handler failing: everything was already flushed; bail-out handlers 0 or 1 times (statement silent)
    let end_handler_failed = r.log.iter().any(|x| matches!(x, Rec::DocEnd { failed: true, .. }));

    if !should_bail {
        // nothing may be flushed, no bail-out handler may run
        if !bails.is_empty() || graceful_event {
            return Err(("bail-out-with-flag-off".into(), format!("a {kind:?} error triggered a graceful bail-out although its flag is off (or the error is a parsing ambiguity){}", ctxs())));
        }
        let (_, c_stripped) = split_ids(&complete_out);
        let (_, o_stripped) = split_ids(&out);
        let reference: &[u8] = if complete.ok() { &complete_out } else { input };
        let ok = if complete.ok() { reference.starts_with(&out) } else { c_stripped.starts_with(&o_stripped) || input.starts_with(&o_stripped) };
        if !ok {
            return Err(("flush-without-flag".into(), format!("flag off, yet the sink holds bytes that are not a prefix of the complete run's output (something was flushed){}\n sink: {}", ctxs(), show(&out))));
        }
        return Ok(o);
    }
    // graceful: bail-out handlers exactly once each, in registration order
    let expected_bails: Vec<usize> = (0..cfg.bail).collect();
    if end_handler_failed {
        if !(bails.is_empty() || bails == expected_bails) {
            return Err(("bail-out-handlers-not-once".into(), format!("bail-out handlers ran {bails:?} on an end-handler failure{}", ctxs())));
        }
    } else if bails != expected_bails {
        return Err(("bail-out-handlers-not-once".into(), format!("bail-out handlers ran {bails:?}, expected each of {expected_bails:?} exactly once in registration order{}", ctxs())));
    }
    o.bailed = true;

    // conservation: sink ++ unwritten input, with ids stripped, must be the input
    let mut whole = out.clone();
    whole.extend_from_slice(rest);
    let (ids, stripped) = split_ids(&whole);
    // how many bytes were unemitted when the error struck: length of the raw flush = whatever follows the last bail marker / normal output
    let (complete_ids, _) = split_ids(&complete_out);
    let bail_ids: Vec<String> = if cfg.bail_append { (0..cfg.bail).map(|i| format!("bail{i}")).collect() } else { vec![] };
    // ids: prefix of the complete run's ids, then the bail ids, then nothing
    let nb = if end_handler_failed && bails.is_empty() { 0 } else { bail_ids.len() };
    if ids.len() < nb || ids[ids.len() - nb..] != bail_ids[..nb] {
        return Err(("bail-out-markers-misplaced".into(), format!("ids in the sink {ids:?} do not end with the bail-out handlers' markers {bail_ids:?}{}", ctxs())));
    }
    // order in the sink: [output for the processed prefix][bail-out markers][raw remainder]. What had been emitted when the
    // error struck is taken from a twin run with both graceful flags off (it stops at the same point and flushes nothing):
    // the markers must follow exactly there, i.e. before any byte of the raw flush.
    if nb > 0 && !end_handler_failed {
        let mut twin = cfg.clone();
        twin.graceful_mem = false;
        twin.graceful_handler = false;
        let r2 = engine::run(&twin, input, cuts).map_err(|e| ("harness".to_string(), e))?;
        let p = r2.out();
        let markers: Vec<u8> = bail_ids.iter().flat_map(|b| format!("{OPEN}{b}{CLOSE}").into_bytes()).collect();
        if r2.final_res() == res && !(out.starts_with(&p) && out[p.len()..].starts_with(&markers)) {
            return Err((
                "bail-out-markers-not-before-the-raw-flush".into(),
                format!("the content appended by the bail-out handlers does not directly follow what had been emitted when the error struck ({} bytes, from the same run without graceful flags): the raw remainder must come after it{}\n sink: {}", p.len(), ctxs(), show(&out)),
            ));
        }
        o.marker_position_checked = true;
    }
    let pre = &ids[..ids.len() - nb];
    if !complete_ids.starts_with(pre) {
        return Err(("inserted-ids-not-a-prefix".into(), format!("inserted ids before the bail-out {pre:?} are not a prefix of the complete run's ids {complete_ids:?}{}", ctxs())));
    }
    // position of bail markers: after all normal output, before the raw flush: the raw suffix must contain no ids (checked by the split above:
    // ids after the bail markers would make `ids` not end with bail_ids)
    if stripped != input {
        // documented exception: a text handler failing on a later chunk of an already partly emitted text node
        let failing_text = r.log.iter().rev().find_map(|x| match x {
            Rec::Text { failed: true, start, .. } => Some(*start),
            _ => None,
        });
        if let Some(fstart) = failing_text {
            // allowed shape: input[..e] ++ input[s..] with s <= e = start of the failing chunk, s inside the same text node
            let node_start = text_node_start(&r, fstart);
            for s in node_start..=fstart {
                let mut cand = input[..fstart.min(input.len())].to_vec();
                cand.extend_from_slice(&input[s.min(input.len())..]);
                if cand == stripped && s < fstart {
                    o.dup_exception = true;
                    o.unemitted_at_error = input.len().saturating_sub(fstart);
                    return Ok(o);
                }
            }
        }
        let i = stripped.iter().zip(input.iter()).position(|(a, b)| a != b).unwrap_or(stripped.len().min(input.len()));
        let key = if stripped.len() < input.len() { "bytes-lost" } else if stripped.len() > input.len() { "bytes-duplicated" } else { "bytes-changed" };
        return Err((
            key.into(),
            format!(
                "after the graceful bail-out, sink ++ unwritten input (ids stripped) differs from the input at byte {i}: {} bytes vs {} bytes{}\n sink+rest: {}",
                stripped.len(),
                input.len(),
                ctxs(),
                show(&stripped)
            ),
        ));
    }
    // unemitted bytes at the moment of the error: the raw flush that follows the last bail-out handler (measurable only
    // when a bail-out handler delimits it) plus the input not yet written
    let mut raw_flush = 0usize;
    if let Some(pos) = r.log.iter().rposition(|x| matches!(x, Rec::Bail { .. })) {
        let marker = bail_ids.last().map(|b| format!("{OPEN}{b}{CLOSE}"));
        for x in &r.log[pos..] {
            if let Rec::Chunk(c) = x {
                if marker.as_ref().map_or(true, |m| c.as_slice() != m.as_bytes()) {
                    raw_flush += c.len();
                }
            }
        }
    }
    o.unemitted_at_error = rest.len() + raw_flush;
    Ok(o)
}

fn text_node_start(r: &RunResult, failing_chunk_start: usize) -> usize {
    // walk back over contiguous text chunks of the same handler
    let mut start = failing_chunk_start;
    let mut hid_of = None;
    for rec in r.log.iter().rev() {
        if let Rec::Text { hid, start: s, end: e, failed, last, .. } = rec {
            if *failed {
                hid_of = Some(*hid);
                continue;
            }
            if Some(*hid) == hid_of {
                if *last || *e != start {
                    break;
                }
                start = *s;
            }
        } else if rec.is_handler_event() && !matches!(rec, Rec::Text { .. }) {
            if hid_of.is_some() {
                // other handlers' events in between are fine; a non-text event for the same handler ends the node
            }
        }
    }
    start
}

pub fn gen_cfg(rng: &mut Rng, inserting: bool) -> Config {
    let mut cfg = Config::default();
    let id = |t: &str| Content::html(format!("{OPEN}@@{t}{CLOSE}"));
    let n_el = rng.range(0, 3);
    for _ in 0..n_el {
        let mut e = ElH { selector: (*rng.pick(gen::OBS_SELECTORS)).to_string(), element: rng.chance(3, 4), text: rng.chance(1, 2), comments: rng.chance(1, 3), end_tag: rng.chance(1, 3), ..Default::default() };
        if !(e.element || e.text || e.comments || e.end_tag) {
            e.element = true;
        }
        if inserting {
            if rng.bool() {
                e.always_el.push(Op::Before(id("b")));
            }
            if rng.chance(1, 3) {
                e.always_el.push(Op::After(id("a")));
            }
            if rng.chance(1, 3) {
                e.always_el.push(Op::Prepend(id("p")));
            }
            if rng.chance(1, 4) {
                e.always_el.push(Op::Append(id("q")));
            }
            if rng.bool() {
                e.always_text.push(Op::Before(id("t")));
            }
            if rng.bool() {
                e.always_comment.push(Op::After(id("c")));
            }
        }
        cfg.el.push(e);
    }
    if rng.chance(2, 3) || cfg.el.is_empty() {
        let mut d = DocH { doctype: rng.bool(), comments: rng.bool(), text: rng.chance(2, 3), end: rng.bool(), ..Default::default() };
        if !(d.doctype || d.comments || d.text || d.end) {
            d.text = true;
        }
        if inserting {
            if rng.bool() {
                d.always_text.push(Op::Before(id("T")));
            }
            if rng.bool() {
                d.always_comment.push(Op::Before(id("C")));
            }
            if rng.bool() {
                d.always_end.push(Op::Append(id("E")));
            }
        }
        cfg.doc.push(d);
    }
    cfg.bail = rng.below(4);
    cfg.bail_append = rng.chance(2, 3);
    cfg
}

#[derive(Clone, Debug, serde_derive::Serialize, serde_derive::Deserialize)]
pub struct Case11 {
    pub base: Case,
}

fn run_case(cfg: &Config, input: &[u8], cuts: &[usize]) -> Result<Obs, (String, String)> {
    let mut full = cfg.clone();
    full.fail_at = None;
    full.max_mem = None;
    let complete = engine::run(&full, input, cuts).map_err(|e| ("harness".to_string(), e))?;
    check(cfg, input, cuts, &complete)
}

impl Prop for C11 {
    fn id(&self) -> &'static str {
        "C11"
    }
    fn level(&self) -> &'static str {
        "fault_enumeration"
    }
    fn rule(&self) -> String {
        "for each (input, schedule, handler set: observers or id-inserting handlers, 0-3 bail-out handlers) a dry run counts the N handler invocations, then ONE RUN PER FAILURE INDEX 1..N (all for N <= 120, sampled above) with every combination of the two graceful flags; independently the memory limit is swept over every value for growth-shaped inputs so that append / parse(stack push) / init_with / end() fail; oracle: sink ++ unwritten input with ids stripped == input, ids = prefix of the complete run's ids then bail-out markers then none, bail-out handlers exactly once in order and their content directly after what the same run without graceful flags had emitted (before the raw remainder), flag separation, no recovery from ParsingAmbiguity; documented exceptions recognised precisely (duplicated segment of a partly emitted text node); non-trivial: an error was returned and >= 1 byte was unemitted at that moment; distinct = hash(input, schedule, config, failure point)".into()
    }
    fn assumptions(&self) -> Vec<String> {
        vec![
            "inputs are valid UTF-8 when text handlers are present (otherwise captured malformed text is legitimately normalised)".into(),
            "whether bail-out handlers run when only the end handler fails is not fixed by the statement: 0 or all accepted".into(),
            "configurations that remove content are not generated (documented exception)".into(),
        ]
    }
    fn run_shard(&self, ctx: &mut Ctx<'_>) {
        let n = ctx.budget(40_000, 2_000_000);
        let cap = ctx.tier.pick(40usize, 120usize);
        for i in 0..n {
            if i % 4 == 0 && ctx.should_stop() {
                break;
            }
            let memory_half = i % 3 == 2;
            if !memory_half {
                let inserting = ctx.rng.bool();
                let mut cfg = gen_cfg(&mut ctx.rng, inserting);
                cfg.strict = ctx.rng.chance(1, 8);
                let mut input = gen::soup(&mut ctx.rng, 18, SoupKind::Any, false);
                if ctx.rng.chance(1, 3) {
                    // multi-byte text that schedules will split
                    let at = ctx.rng.below(input.len() + 1);
                    let tail = input.split_off(at);
                    input.extend_from_slice("ab中文cd😀é".as_bytes());
                    input.extend(tail);
                    if std::str::from_utf8(&input).is_err() {
                        input = String::from_utf8_lossy(&input).into_owned().into_bytes();
                    }
                }
                if ctx.rng.chance(1, 25) {
                    // a text lexeme longer than the decoder's buffer: several chunks per lexeme
                    let unit = *ctx.rng.pick(&["é", "中", "ab"]);
                    let mut t = String::from("<p>");
                    for _ in 0..ctx.rng.range(600, 1500) {
                        t.push_str(unit);
                    }
                    t.push_str("</p>");
                    input = t.into_bytes();
                    if cfg.doc.is_empty() {
                        cfg.doc.push(DocH { text: true, ..Default::default() });
                    } else {
                        cfg.doc[0].text = true;
                    }
                }
                let cuts = gen::random_cuts(&mut ctx.rng, input.len());
                let mut full = cfg.clone();
                full.fail_at = None;
                let complete = match engine::run(&full, &input, &cuts) {
                    Ok(c) => c,
                    Err(e) => panic!("{e}"),
                };
                let nn = complete.invocations;
                if nn == 0 {
                    continue;
                }
                let idxs: Vec<usize> = if nn <= cap { (1..=nn).collect() } else { (0..cap).map(|_| ctx.rng.range(1, nn)).collect() };
                if nn <= cap {
                    ctx.count("cases_with_all_failure_indices");
                }
                for k in idxs {
                    let (gm, gh) = match ctx.rng.below(6) {
                        0 => (true, false),
                        1 => (false, false),
                        2 => (true, true),
                        _ => (false, true),
                    };
                    let mut c = cfg.clone();
                    c.fail_at = Some(k);
                    c.graceful_mem = gm;
                    c.graceful_handler = gh;
                    ctx.eval();
                    match check(&c, &input, &cuts, &complete) {
                        Ok(o) => self.record(ctx, &o, &c, &input, &cuts),
                        Err((key, msg)) => {
                            if key == "harness" {
                                panic!("{msg}");
                            }
                            let key0 = refine_key(&key, &c, &input, &cuts);
                            if ctx.is_known(&key0) {
                                ctx.violation(Violation { key: key0, msg, case: Case::new(&c, &input, &cuts).to_value() });
                                continue;
                            }
                            // shrink (observer configurations only: scripts are offset free here, so shrinking is safe)
                            let k2 = key.clone();
                            let (i2, c2) = crate::core::shrink_input(&input, &cuts, &mut |ii, cc| {
                                if std::str::from_utf8(ii).is_err() {
                                    return false;
                                }
                                // the failure index must be re-found: try all
                                let mut full = c.clone();
                                full.fail_at = None;
                                let Ok(comp) = engine::run(&full, ii, cc) else { return false };
                                (1..=comp.invocations.min(60)).any(|kk| {
                                    let mut c3 = c.clone();
                                    c3.fail_at = Some(kk);
                                    matches!(check(&c3, ii, cc, &comp), Err((k, _)) if k == k2)
                                })
                            });
                            // find the failing index on the shrunk input
                            let mut best = (c.clone(), input.clone(), cuts.clone(), msg.clone());
                            let mut full = c.clone();
                            full.fail_at = None;
                            if let Ok(comp) = engine::run(&full, &i2, &c2) {
                                for kk in 1..=comp.invocations.min(60) {
                                    let mut c3 = c.clone();
                                    c3.fail_at = Some(kk);
                                    if let Err((k, m)) = check(&c3, &i2, &c2, &comp) {
                                        if k == key {
                                            best = (c3, i2.clone(), c2.clone(), m);
                                            break;
                                        }
                                    }
                                }
                            }
                            let key = refine_key(&key, &best.0, &best.1, &best.2);
                            if !ctx.violation(Violation { key, msg: best.3, case: Case::new(&best.0, &best.1, &best.2).to_value() }) {
                                return;
                            }
                            break;
                        }
                    }
                }
            } else {
                // memory half: sweep the limit
                let shape = c10::SHAPES[ctx.rng.below(c10::SHAPES.len())];
                let size = ctx.rng.range(10, 200);
                let (mut input, _) = c10::growth_input(&mut ctx.rng, shape, size);
                if std::str::from_utf8(&input).is_err() {
                    input = String::from_utf8_lossy(&input).into_owned().into_bytes();
                }
                let inserting = ctx.rng.bool();
                let mut cfg = gen_cfg(&mut ctx.rng, inserting);
                if ctx.rng.chance(1, 4) {
                    cfg.el.clear();
                    cfg.doc.clear();
                }
                if ctx.rng.chance(1, 3) {
                    cfg.el.push(ElH { selector: "*".into(), element: true, ..Default::default() });
                }
                cfg.prealloc = Some(0);
                let cuts = match ctx.rng.below(3) {
                    0 => {
                        let k = ctx.rng.range(1, 30);
                        (1..input.len()).filter(|x| x % k == 0).collect()
                    }
                    _ => gen::random_cuts(&mut ctx.rng, input.len()),
                };
                let mut full = cfg.clone();
                full.max_mem = None;
                let complete = match engine::run(&full, &input, &cuts) {
                    Ok(c) => c,
                    Err(e) => panic!("{e}"),
                };
                let top = 2 * input.len() + 300;
                let mut m = 0;
                let mut succ = 0;
                while m <= top {
                    let mut c = cfg.clone();
                    c.max_mem = Some(m);
                    let (gm, gh) = match ctx.rng.below(6) {
                        0 => (false, true),
                        1 => (false, false),
                        _ => (true, ctx.rng.bool()),
                    };
                    c.graceful_mem = gm;
                    c.graceful_handler = gh;
                    ctx.eval();
                    match check(&c, &input, &cuts, &complete) {
                        Ok(o) => {
                            if !o.error {
                                succ += 1;
                                if succ > 12 {
                                    break;
                                }
                            }
                            self.record(ctx, &o, &c, &input, &cuts);
                        }
                        Err((key, msg)) => {
                            if key == "harness" {
                                panic!("{msg}");
                            }
                            let key = refine_key(&key, &c, &input, &cuts);
                            if !ctx.violation(Violation { key, msg, case: Case::new(&c, &input, &cuts).to_value() }) {
                                return;
                            }
                            break;
                        }
                    }
                    m += if m < 400 { 1 } else { 7 };
                }
            }
        }
    }
    fn replay(&self, case: &Value) -> Result<Vec<Violation>, String> {
        let c: Case = serde_json::from_value(case.clone()).map_err(|e| e.to_string())?;
        match run_case(&c.cfg, &c.input(), &c.cuts) {
            Ok(_) => Ok(vec![]),
            Err((key, msg)) => {
                let key = refine_key(&key, &c.cfg, &c.input(), &c.cuts);
                Ok(vec![Violation { key, msg, case: case.clone() }])
            }
        }
    }
    fn watchdog_s(&self, tier: Tier) -> u64 {
        tier.pick(400, 3000)
    }
}

impl C11 {
    fn record(&self, ctx: &mut Ctx<'_>, o: &Obs, c: &Config, input: &[u8], cuts: &[usize]) {
        if o.error {
            ctx.count(&format!("errors:{}", o.kind));
            if let Some(s) = &o.site {
                ctx.count(&format!("failure_site:{s}"));
            }
            if o.bailed {
                ctx.count("graceful_bailouts_checked");
            } else {
                ctx.count("non_graceful_failures_checked");
            }
            if o.dup_exception {
                ctx.count("documented_text_duplicate_exception");
            }
            if o.marker_position_checked {
                ctx.count("bail_out_marker_position_checked");
            }
            if o.bailed && o.unemitted_at_error > 0 {
                ctx.nontrivial(mix(mix(fnv(input), fnv(format!("{cuts:?}{:?}{:?}", c.fail_at, c.max_mem).as_bytes())), fnv(serde_json::to_string(c).unwrap().as_bytes())));
                ctx.sample(|| Case::new(c, input, cuts).to_value());
            }
        }
    }
}

/// Bug-model keys for known findings: the deviation must be exactly what the described defect predicts.
pub fn refine_key(key: &str, cfg: &Config, input: &[u8], cuts: &[usize]) -> String {
    if key == "bytes-lost" && cfg.fail_at.is_some() {
        if let Some(k) = decoder_held_bytes_model(cfg, input, cuts) {
            return k;
        }
    }
    key.to_string()
}

/// F6 bug model: a multi-byte character is split by a write boundary inside captured text; the head bytes sit in the
/// text decoder of an already consumed lexeme; the handler error on the next write flushes from the new lexeme start, so
/// exactly those head bytes are missing and nothing else differs.
fn decoder_held_bytes_model(cfg: &Config, input: &[u8], cuts: &[usize]) -> Option<String> {
    let r = engine::run(cfg, input, cuts).ok()?;
    let mut whole = r.out();
    whole.extend_from_slice(&input[r.written.min(input.len())..]);
    let (_, stripped) = split_ids(&whole);
    if stripped.len() >= input.len() {
        return None;
    }
    let missing = input.len() - stripped.len();
    if missing > 3 {
        return None;
    }
    // find the cut c such that input == stripped[..p] ++ input[p..p+missing] ++ stripped[p..] with p+missing == c (a write boundary)
    for &c in cuts {
        if c < missing || c > input.len() {
            continue;
        }
        let p = c - missing;
        if stripped.len() >= p && input[..p] == stripped[..p] && input[c..] == stripped[p..] {
            // the missing bytes must be the head of a multi-byte UTF-8 character completed after the boundary
            let head = &input[p..c];
            let lead = head[0];
            let need = if lead >= 0xf0 { 4 } else if lead >= 0xe0 { 3 } else if lead >= 0xc0 { 2 } else { 0 };
            if need > missing && head[1..].iter().all(|b| (0x80..0xc0).contains(b)) && input.get(c).map_or(false, |b| (0x80..0xc0).contains(b)) {
                return Some("decoder-held-bytes-lost-on-bail-out".into());
            }
        }
    }
    None
}
