//! C05 Scoped dispatch: handlers fire exactly once, in order, for exactly their scope.

use super::c04::{describe, undescribe, DocDesc};
use crate::core::{hex, show, unhex, Ctx, Prop, Tier, Violation};
use crate::engine::{self, Config, DocH, ElH, Rec, Res};
use crate::gen;
use crate::reftree;
use crate::rng::{fnv, mix, Rng};
use crate::selgen::{self, SelList};
use crate::structgen::{self, Doc, Kind};
use serde_derive::{Deserialize, Serialize};
use serde_json::Value;

pub struct C05;

#[derive(Clone, Debug, PartialEq, Eq, PartialOrd, Ord)]
pub enum K {
    El,
    Text,
    Comment,
    Doctype,
    EndTag,
    DocEnd,
}

/// (kind, handler id, byte offset of the token)
pub type Ev = (K, usize, usize);

#[derive(Clone, Debug, Serialize, Deserialize)]
pub struct HSpec {
    pub sel: SelList,
    pub element: bool,
    pub text: bool,
    pub comments: bool,
    pub end_tag: bool,
    /// content-removing / inserting edits applied by the element handler: they must not change who is invoked
    #[serde(default)]
    pub edits: Vec<crate::engine::Op>,
}

#[derive(Clone, Debug, Serialize, Deserialize)]
pub struct Case5 {
    pub hs: Vec<HSpec>,
    pub docs: Vec<(bool, bool, bool, bool)>,
    pub doc_hex: String,
    pub doc: DocDesc,
    pub cuts: Vec<usize>,
    pub esi: bool,
    /// per-node edits applied by handler 0's element handler (keyed by start tag offset): content removal and
    /// `on_end_tag` registrations on individual elements
    #[serde(default)]
    pub node_ops: Vec<(usize, Vec<crate::engine::Op>)>,
}

fn config(c: &Case5) -> Config {
    Config {
        script: c.node_ops.iter().map(|(off, ops)| crate::engine::ScriptEntry { hid: 0, sub: crate::engine::Sub::El, offset: *off, ops: ops.clone() }).collect(),
        esi: c.esi,
        el: c.hs.iter().map(|h| ElH { selector: h.sel.css(), element: h.element || !h.edits.is_empty(), text: h.text, comments: h.comments, end_tag: h.end_tag, always_el: h.edits.clone(), ..Default::default() }).collect(),
        doc: c.docs.iter().map(|&(doctype, comments, text, end)| DocH { doctype, comments, text, end, ..Default::default() }).collect(),
        ..Default::default()
    }
}

/// the expected invocation log from ground truth + RefTree + RefSelector
pub fn expected(c: &Case5, doc: &Doc, flat: bool) -> Vec<Ev> {
    let tree = reftree::build(doc);
    let nel = c.hs.len();
    // which selectors match which node
    let matched: Vec<Vec<bool>> = tree.nodes.iter().enumerate().map(|(ni, _)| c.hs.iter().map(|h| selgen::list_matches(&tree, ni, &h.sel, flat, encoding_rs::UTF_8)).collect()).collect();
    let node_of_tok: std::collections::HashMap<usize, usize> = tree.nodes.iter().enumerate().map(|(i, n)| (n.tok, i)).collect();
    let mut out: Vec<Ev> = vec![];
    for (ti, tok) in doc.toks.iter().enumerate() {
        let open = &tree.open_before[ti];
        let active = |i: usize| open.iter().any(|&n| matched[n][i]);
        match &tok.kind {
            Kind::Start { .. } => {
                let ni = node_of_tok[&ti];
                for (i, h) in c.hs.iter().enumerate() {
                    if matched[ni][i] && (h.element || h.end_tag || !h.edits.is_empty()) {
                        out.push((K::El, i, tok.start));
                    }
                }
            }
            Kind::End { .. } => {
                // every element closed by this end tag runs its end-tag handlers here
                let mut evs = vec![];
                for (ni, n) in tree.nodes.iter().enumerate() {
                    if n.closed_by == Some(ti) {
                        for (i, h) in c.hs.iter().enumerate() {
                            if matched[ni][i] && h.end_tag {
                                evs.push((K::EndTag, i, tok.start));
                            }
                        }
                        // end-tag handlers registered on this very element by the scripted element handler 0
                        if matched[ni].first().copied().unwrap_or(false) {
                            if let Some((_, ops)) = c.node_ops.iter().find(|(off, _)| *off == n.start) {
                                for op in ops {
                                    if matches!(op, crate::engine::Op::OnEndTag(_)) {
                                        evs.push((K::EndTag, 0, tok.start));
                                    }
                                }
                            }
                        }
                    }
                }
                evs.sort();
                out.extend(evs);
            }
            Kind::Text { .. } => {
                for (i, h) in c.hs.iter().enumerate() {
                    if h.text && active(i) {
                        out.push((K::Text, i, tok.start));
                    }
                }
                for (j, d) in c.docs.iter().enumerate() {
                    if d.2 {
                        out.push((K::Text, nel + j, tok.start));
                    }
                }
            }
            Kind::Comment { .. } => {
                for (i, h) in c.hs.iter().enumerate() {
                    if h.comments && active(i) {
                        out.push((K::Comment, i, tok.start));
                    }
                }
                for (j, d) in c.docs.iter().enumerate() {
                    if d.1 {
                        out.push((K::Comment, nel + j, tok.start));
                    }
                }
            }
            Kind::Doctype { .. } => {
                for (j, d) in c.docs.iter().enumerate() {
                    if d.0 {
                        out.push((K::Doctype, nel + j, tok.start));
                    }
                }
            }
            Kind::CdataMarker => {}
        }
    }
    let mut ends: Vec<Ev> = c.docs.iter().enumerate().filter(|(_, d)| d.3).map(|(j, _)| (K::DocEnd, nel + j, 0)).collect();
    ends.sort();
    out.extend(ends);
    out
}

/// the recorded log in the same vocabulary (text chunks folded per node)
pub fn observed(r: &engine::RunResult) -> Result<Vec<Ev>, String> {
    let mut out: Vec<Ev> = vec![];
    let mut open_text: std::collections::BTreeMap<usize, usize> = Default::default();
    for rec in &r.log {
        match rec {
            Rec::El(e) => out.push((K::El, e.hid, e.start)),
            Rec::EndTag { hid, start, .. } => out.push((K::EndTag, *hid, *start)),
            Rec::Comment { hid, start, .. } => out.push((K::Comment, *hid, *start)),
            Rec::Doctype { hid, start, .. } => out.push((K::Doctype, *hid, *start)),
            Rec::Text { hid, start, last, .. } => {
                if !open_text.contains_key(hid) {
                    open_text.insert(*hid, *start);
                    out.push((K::Text, *hid, *start));
                }
                if *last {
                    open_text.remove(hid);
                }
            }
            Rec::DocEnd { hid, .. } => out.push((K::DocEnd, *hid, 0)),
            _ => {}
        }
    }
    if !open_text.is_empty() {
        return Err(format!("text nodes without a last_in_text_node chunk for handlers {:?}", open_text.keys().collect::<Vec<_>>()));
    }
    // order among end-tag handlers of different elements closed by one end tag, and among several `end`
    // handlers, is not fixed by the statement: canonicalise those groups
    let mut i = 0;
    while i < out.len() {
        let mut j = i + 1;
        while j < out.len() && out[j].0 == out[i].0 && out[j].2 == out[i].2 && matches!(out[i].0, K::EndTag | K::DocEnd) {
            j += 1;
        }
        out[i..j].sort();
        i = j;
    }
    Ok(out)
}

pub struct Obs {
    pub events: usize,
    pub scopes: usize,
    pub implicit_or_never_closed: bool,
}

pub fn check(c: &Case5, doc: &Doc) -> Result<Obs, (String, String)> {
    let cfg = config(c);
    let r = engine::run(&cfg, &doc.bytes, &c.cuts).map_err(|e| ("selector-rejected".to_string(), e))?;
    if r.final_res() != Res::Ok {
        return Err(("unexpected-result".into(), format!("{:?}\n doc: {}", r.final_res(), show(&doc.bytes))));
    }
    let got = observed(&r).map_err(|e| ("text-node-protocol".to_string(), format!("{e}\n doc: {}", show(&doc.bytes))))?;
    let exp = expected(c, doc, false);
    if got != exp {
        let flat = expected(c, doc, true);
        let key = if got == flat && c.hs.iter().any(|h| h.sel.has_compound_or_nested_not()) { "negation-flattened" } else { "dispatch-differs" };
        let names: Vec<String> = c.hs.iter().map(|h| format!("{}[el={} text={} comments={} end_tag={} edits={:?}]", h.sel.css(), h.element, h.text, h.comments, h.end_tag, h.edits)).collect();
        return Err((
            key.into(),
            format!("recorded invocations (A) vs reference scope model (B): {}\n A: {:?}\n B: {:?}\n handlers: {names:?} + document handlers (doctype,comments,text,end) {:?}\n cuts: {:?}\n doc: {}", crate::norm::first_diff(&got, &exp), &got[..got.len().min(14)], &exp[..exp.len().min(14)], c.docs, c.cuts, show(&doc.bytes)),
        ));
    }
    let tree = reftree::build(doc);
    let kinds: std::collections::BTreeSet<(bool, &K)> = got.iter().map(|(k, h, _)| (*h >= c.hs.len(), k)).collect();
    Ok(Obs { events: got.len(), scopes: kinds.len(), implicit_or_never_closed: tree.nodes.iter().any(|n| !n.no_content && !n.own_end_tag) })
}

fn gen_sel(rng: &mut Rng) -> SelList {
    // simpler selectors than C04 (the scope logic is the subject here), no compound :not
    loop {
        let s = selgen::gen_list(rng);
        if !s.has_compound_or_nested_not() || rng.chance(1, 10) {
            return s;
        }
    }
}

impl Prop for C05 {
    fn id(&self) -> &'static str {
        "C05"
    }
    fn rule(&self) -> String {
        "all combinations of element / text / comments / end-tag handlers on 1-4 generated selectors plus 0-2 document handlers (doctype, comments, text, end) x generated documents with ground truth (unclosed, mis-nested, stray end tags, void, foreign, integration points, text-mode elements, CDATA) x write schedules; the recorded invocation log (kind, handler, token offset; text chunks folded per node) is compared as a SEQUENCE with the log predicted by the reference scope model (RefTree + RefSelector): scope, exactly-once, document order, registration order with selector-scoped before document-level, end-tag handlers at the closing tag only, `end` once; non-trivial: >= 2 handlers of different scope/kind fired and some element was closed implicitly or never; distinct = hash(handlers, document, schedule)".into()
    }
    fn assumptions(&self) -> Vec<String> {
        vec!["the relative order of end-tag handlers belonging to different elements closed by the same end tag, and of several `end` handlers, is not fixed by the statement and is canonicalised".into()]
    }
    fn run_shard(&self, ctx: &mut Ctx<'_>) {
        let n = ctx.budget(100_000, 25_000_000);
        for i in 0..n {
            if i % 32 == 0 && ctx.should_stop() {
                break;
            }
            let esi = ctx.rng.chance(1, 12);
            let dense = ctx.rng.chance(1, 3);
            const DENSE_NAMES: &[&str] = &["div", "span", "p", "b"];
            let o = if dense {
                structgen::Opts { foreign: ctx.rng.chance(1, 4), max_nodes: 36, max_depth: 9, esi: false, nonascii: false, weird_attrs: false, names: Some(DENSE_NAMES), close_percent: *ctx.rng.pick(&[30usize, 50, 70]), ..Default::default() }
            } else {
                structgen::Opts { foreign: ctx.rng.chance(2, 3), max_nodes: 16, esi, nonascii: ctx.rng.chance(1, 3), ..Default::default() }
            };
            let doc = structgen::gen_doc(&mut ctx.rng, &o);
            let nh = ctx.rng.range(1, 4);
            let hs: Vec<HSpec> = (0..nh)
                .map(|_| {
                    let sel = if dense && ctx.rng.chance(2, 3) {
                        selgen::gen_structural(&mut ctx.rng, DENSE_NAMES)
                    } else if ctx.rng.chance(1, 3) {
                        SelList(vec![selgen::Complex { first: selgen::Compound(vec![if ctx.rng.bool() { selgen::Simple::Universal } else { selgen::Simple::Type((*ctx.rng.pick(selgen::SEL_TYPES)).to_string()) }]), rest: vec![] }])
                    } else {
                        gen_sel(&mut ctx.rng)
                    };
                    let mut h = HSpec { sel, element: ctx.rng.bool(), text: ctx.rng.bool(), comments: ctx.rng.bool(), end_tag: ctx.rng.bool(), edits: vec![] };
                    if ctx.rng.chance(1, 4) {
                        use crate::engine::{Content, Op};
                        h.edits.push(match ctx.rng.below(6) {
                            0 | 1 => Op::SetInner(Content::html("<i>inner</i>")),
                            2 => Op::Remove,
                            3 => Op::Replace(Content::text("repl")),
                            4 => Op::RemoveKeep,
                            _ => Op::Append(Content::html("<!--app-->")),
                        });
                    }
                    if !(h.element || h.text || h.comments || h.end_tag) {
                        h.text = true;
                    }
                    h
                })
                .collect();
            let nd = ctx.rng.below(3);
            let docs: Vec<(bool, bool, bool, bool)> = (0..nd).map(|_| (ctx.rng.bool(), ctx.rng.bool(), ctx.rng.bool(), ctx.rng.bool())).collect();
            let cuts = gen::random_cuts(&mut ctx.rng, doc.bytes.len());
            let mut hs = hs;
            let mut docs = docs;
            let mut node_ops = vec![];
            if ctx.rng.chance(1, 4) {
                // scripted mode: handler 0 is an element handler on a broad selector; individual elements get content
                // removal or their own end-tag handler; mostly nothing else is captured (tag-scan mode between tags)
                use crate::engine::{Content, Op};
                hs[0] = HSpec { sel: SelList(vec![selgen::Complex { first: selgen::Compound(vec![selgen::Simple::Universal]), rest: vec![] }]), element: true, text: false, comments: false, end_tag: false, edits: vec![] };
                if ctx.rng.chance(2, 3) {
                    hs.truncate(1);
                    docs.clear();
                }
                let tree = reftree::build(&doc);
                for n in &tree.nodes {
                    if ctx.rng.chance(1, 3) {
                        let op = match ctx.rng.below(8) {
                            0 | 1 => Op::SetInner(Content::text("x")),
                            2 => Op::Remove,
                            3 => Op::Replace(Content::html("<r></r>")),
                            4 => Op::RemoveKeep,
                            _ => Op::OnEndTag(vec![]),
                        };
                        node_ops.push((n.start, vec![op]));
                    }
                }
                ctx.count("scripted_per_element_cases");
            }
            let case = Case5 { hs, docs, doc_hex: hex(&doc.bytes), doc: describe(&doc), cuts, esi, node_ops };
            ctx.eval();
            match check(&case, &doc) {
                Ok(o) => {
                    ctx.add("invocations_compared", o.events as u64);
                    if o.scopes >= 2 && o.implicit_or_never_closed {
                        ctx.nontrivial(mix(fnv(&doc.bytes), fnv(serde_json::to_string(&(&case.hs, &case.docs, &case.cuts)).unwrap().as_bytes())));
                        ctx.sample(|| serde_json::json!({"handlers": case.hs.iter().map(|h| format!("{} el={} text={} comments={} end_tag={}", h.sel.css(), h.element, h.text, h.comments, h.end_tag)).collect::<Vec<_>>(), "doc_handlers": case.docs, "doc": show(&doc.bytes), "cuts": case.cuts}));
                    }
                }
                Err((key, msg)) => {
                    if ctx.is_known(&key) {
                        ctx.violation(Violation { key, msg, case: serde_json::to_value(&case).unwrap() });
                        continue;
                    }
                    // shrink handlers
                    let mut best = case.clone();
                    let mut bmsg = msg;
                    loop {
                        let mut improved = false;
                        for k in 0..best.hs.len() {
                            if best.hs.len() == 1 {
                                break;
                            }
                            let mut c2 = best.clone();
                            c2.hs.remove(k);
                            if let Err((k2, m2)) = check(&c2, &doc) {
                                if k2 == key {
                                    best = c2;
                                    bmsg = m2;
                                    improved = true;
                                    break;
                                }
                            }
                        }
                        for k in 0..best.docs.len() {
                            let mut c2 = best.clone();
                            c2.docs.remove(k);
                            if let Err((k2, m2)) = check(&c2, &doc) {
                                if k2 == key {
                                    best = c2;
                                    bmsg = m2;
                                    improved = true;
                                    break;
                                }
                            }
                        }
                        if !improved {
                            break;
                        }
                    }
                    if !ctx.violation(Violation { key, msg: bmsg, case: serde_json::to_value(&best).unwrap() }) {
                        return;
                    }
                }
            }
        }
    }
    fn replay(&self, case: &Value) -> Result<Vec<Violation>, String> {
        let c: Case5 = serde_json::from_value(case.clone()).map_err(|e| e.to_string())?;
        let doc = undescribe(unhex(&c.doc_hex), &c.doc);
        match check(&c, &doc) {
            Ok(_) => Ok(vec![]),
            Err((key, msg)) => Ok(vec![Violation { key, msg, case: case.clone() }]),
        }
    }
    fn watchdog_s(&self, tier: Tier) -> u64 {
        tier.pick(400, 3000)
    }
}
