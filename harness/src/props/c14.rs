//! C14 Source locations are exact, absolute and independent of chunking.

use super::c04::{describe, undescribe, DocDesc};
use crate::core::{hex, show, unhex, Ctx, Prop, Tier, Violation};
use crate::engine::{self, Config, Content, DocH, ElH, Op, Rec, Res};
use crate::gen::{self, SoupKind};
use crate::refattr;
use crate::reftree;
use crate::rng::{fnv, mix};
use crate::structgen::{self, Doc, Kind};
use serde_derive::{Deserialize, Serialize};
use serde_json::Value;

pub struct C14;

#[derive(Clone, Debug, Serialize, Deserialize)]
pub struct Case14 {
    pub encoding: String,
    pub doc_hex: String,
    pub doc: Option<DocDesc>,
    pub cuts: Vec<usize>,
    /// handlers also rewrite earlier content
    pub rewriting: bool,
    pub esi: bool,
}

pub fn config(c: &Case14) -> Config {
    let mut e = ElH { selector: "*".into(), element: true, text: false, comments: false, end_tag: true, ..Default::default() };
    let mut d = DocH { doctype: true, comments: true, text: true, end: true, ..Default::default() };
    if c.rewriting {
        // several modifications of one token (locations are read again after them by the engine's monitor): a new
        // attribute set twice, attributes that often exist in the source, a removal, and an end-tag rename
        e.always_el = vec![
            Op::Before(Content::html("<!--ins @@-->")),
            Op::SetAttr("data-rw".into(), "1".into()),
            Op::SetAttr("data-rw".into(), "2".into()),
            Op::SetAttr("class".into(), "k".into()),
            Op::SetAttr("A".into(), "z".into()),
            Op::RemoveAttr("id".into()),
            Op::Append(Content::text("<appended & more>")),
            Op::OnEndTag(vec![Op::Before(Content::html("<!--e-->")), Op::SetTagName("renamed".into()), Op::SetTagName("renamed2".into())]),
        ];
        e.end_tag = false;
        d.always_comment = vec![Op::After(Content::html("<b>after comment</b>")), Op::SetText("one".into()), Op::SetText("two".into())];
        d.always_text = vec![Op::Before(Content::text("[t]"))];
    }
    Config { encoding: c.encoding.clone(), esi: c.esi, el: vec![e], doc: vec![d], ..Default::default() }
}

#[derive(Default)]
pub struct Obs {
    pub tokens_checked: usize,
    pub attrs_checked: usize,
    pub text_nodes: usize,
    pub spanning: usize,
    pub after_shift: bool,
}

/// tokens spanning a write boundary
fn spans_cut(cuts: &[usize], s: usize, e: usize) -> bool {
    cuts.iter().any(|&c| c > s && c < e)
}

pub fn check_truth(c: &Case14, doc: &Doc) -> Result<Obs, (String, String)> {
    let cfg = config(c);
    let r = engine::run(&cfg, &doc.bytes, &c.cuts).map_err(|e| ("harness".to_string(), e))?;
    if r.final_res() != Res::Ok {
        return Err(("unexpected-result".into(), format!("{:?}\n doc: {}", r.final_res(), show(&doc.bytes))));
    }
    let tree = reftree::build(doc);
    let mut obs = Obs::default();
    obs.after_shift = r.hook.iter().any(|e| matches!(e, lol_html::verif::Event::BufferShift(_) | lol_html::verif::Event::BufferInit(_)));
    let ctx = |m: String| format!("{m}\n cuts: {:?} encoding: {} rewriting: {}\n doc: {}", c.cuts, c.encoding, c.rewriting, show(&doc.bytes));
    // expected sequences
    let mut exp_el: Vec<usize> = vec![]; // node indices in order
    for (ni, _) in tree.nodes.iter().enumerate() {
        exp_el.push(ni);
    }
    let mut el_i = 0;
    let mut com: Vec<&structgen::Tok> = doc.toks.iter().filter(|t| matches!(t.kind, Kind::Comment { .. })).collect();
    com.reverse();
    let mut dts: Vec<&structgen::Tok> = doc.toks.iter().filter(|t| matches!(t.kind, Kind::Doctype { .. })).collect();
    dts.reverse();
    let mut texts: Vec<&structgen::Tok> = doc.toks.iter().filter(|t| matches!(t.kind, Kind::Text { .. })).collect();
    texts.reverse();
    let mut cur_text: Option<(usize, usize, usize)> = None; // (node start, node end, covered up to)
    let mut last_end = 0usize;
    for rec in &r.log {
        match rec {
            Rec::LocChanged { what, before, after } => {
                return Err(("location-changes-under-mutation".into(), ctx(format!("{what}: {before:?} vs {after:?} (source locations refer to the original input and do not move when the token is edited; set attributes report None)"))));
            }
            Rec::El(e) => {
                let Some(&ni) = exp_el.get(el_i) else {
                    return Err(("unexpected-element".into(), ctx(format!("element event at {}..{} beyond the last start tag", e.start, e.end))));
                };
                el_i += 1;
                let n = &tree.nodes[ni];
                if (e.start, e.end) != (n.start, n.end) {
                    return Err(("element-location".into(), ctx(format!("element location {}..{} but the start tag is at {}..{}: {}", e.start, e.end, n.start, n.end, show(&doc.bytes[n.start..n.end])))));
                }
                if e.start < last_end {
                    return Err(("locations-go-backwards".into(), ctx(format!("element at {} starts before the previous token's end {}", e.start, last_end))));
                }
                last_end = e.end;
                obs.tokens_checked += 1;
                if spans_cut(&c.cuts, n.start, n.end) {
                    obs.spanning += 1;
                }
                let p = refattr::parse_tag(&doc.bytes[n.start..n.end]).ok_or_else(|| ("harness".to_string(), "refattr".to_string()))?;
                if p.attrs.len() != e.attrs.len() {
                    return Err(("attribute-count".into(), ctx(format!("{} attributes reported, {} in the tag {}", e.attrs.len(), p.attrs.len(), show(&doc.bytes[n.start..n.end])))));
                }
                for (ra, a) in p.attrs.iter().zip(e.attrs.iter()) {
                    obs.attrs_checked += 1;
                    let tn = (n.start + ra.name.0, n.start + ra.name.1);
                    if a.name_loc != Some(tn) {
                        return Err(("attribute-name-location".into(), ctx(format!("attribute name location {:?}, expected {:?} in tag {} at {}", a.name_loc, tn, show(&doc.bytes[n.start..n.end]), n.start))));
                    }
                    if ra.has_value {
                        let tv = (n.start + ra.value.0, n.start + ra.value.1);
                        if a.value_loc != Some(tv) {
                            return Err(("attribute-value-location".into(), ctx(format!("attribute value location {:?}, expected {:?} in tag {} at {}", a.value_loc, tv, show(&doc.bytes[n.start..n.end]), n.start))));
                        }
                    } else {
                        // no value bytes: an empty range located inside the tag, after the name
                        match a.value_loc {
                            Some((s, e2)) if s == e2 && s >= tn.1 && s <= n.end => {}
                            other => {
                                return Err(("valueless-attribute-value-location".into(), ctx(format!("valueless attribute: value location {:?} is not an empty range inside the tag after the name (name at {:?}) in tag {} at {}", other, tn, show(&doc.bytes[n.start..n.end]), n.start))));
                            }
                        }
                    }
                }
            }
            Rec::EndTag { start, end, .. } => {
                // must be one of the end tag tokens
                let ok = doc.toks.iter().any(|t| matches!(t.kind, Kind::End { .. }) && (t.start, t.end) == (*start, *end));
                if !ok {
                    return Err(("end-tag-location".into(), ctx(format!("end tag location {start}..{end} is not an end tag of the document"))));
                }
                obs.tokens_checked += 1;
            }
            Rec::Comment { start, end, .. } => {
                let Some(t) = com.pop() else { return Err(("unexpected-comment".into(), ctx(format!("comment event at {start}..{end}")))) };
                if (t.start, t.end) != (*start, *end) {
                    return Err(("comment-location".into(), ctx(format!("comment location {start}..{end}, the comment is at {}..{}", t.start, t.end))));
                }
                if *start < last_end {
                    return Err(("locations-go-backwards".into(), ctx(format!("comment at {start} starts before the previous token's end {last_end}"))));
                }
                last_end = *end;
                obs.tokens_checked += 1;
                if spans_cut(&c.cuts, t.start, t.end) {
                    obs.spanning += 1;
                }
            }
            Rec::Doctype { start, end, .. } => {
                let Some(t) = dts.pop() else { return Err(("unexpected-doctype".into(), ctx(format!("doctype event at {start}..{end}")))) };
                if (t.start, t.end) != (*start, *end) {
                    return Err(("doctype-location".into(), ctx(format!("doctype location {start}..{end}, the doctype is at {}..{}", t.start, t.end))));
                }
                last_end = *end;
                obs.tokens_checked += 1;
            }
            Rec::Text { start, end, last, .. } => {
                if cur_text.is_none() {
                    let Some(t) = texts.pop() else { return Err(("unexpected-text".into(), ctx(format!("text chunk at {start}..{end} beyond the last text node")))) };
                    cur_text = Some((t.start, t.end, t.start));
                    if *start < last_end {
                        return Err(("locations-go-backwards".into(), ctx(format!("text chunk at {start} starts before the previous token's end {last_end}"))));
                    }
                }
                let (ns, ne, covered) = cur_text.unwrap();
                if *start != covered {
                    return Err(("text-chunks-not-contiguous".into(), ctx(format!("text chunk {start}..{end} does not continue at {covered} (text node {ns}..{ne})"))));
                }
                if *end > ne || end < start {
                    return Err(("text-chunk-outside-node".into(), ctx(format!("text chunk {start}..{end} leaves its text node {ns}..{ne}"))));
                }
                cur_text = Some((ns, ne, *end));
                if *last {
                    if *end != ne {
                        return Err(("text-chunks-do-not-cover-node".into(), ctx(format!("the chunks of text node {ns}..{ne} end at {end}"))));
                    }
                    last_end = ne;
                    obs.text_nodes += 1;
                    if spans_cut(&c.cuts, ns, ne) {
                        obs.spanning += 1;
                    }
                    cur_text = None;
                }
            }
            _ => {}
        }
    }
    if el_i != exp_el.len() || !com.is_empty() || !dts.is_empty() || !texts.is_empty() || cur_text.is_some() {
        return Err(("missing-events".into(), ctx(format!("not all tokens were reported: {} of {} elements, {} comments / {} doctypes / {} text nodes missing", el_i, exp_el.len(), com.len(), dts.len(), texts.len()))));
    }
    Ok(obs)
}

/// self-consistency on soup: monotone, in bounds, tags start with '<' and end with '>'
pub fn check_soup(c: &Case14, input: &[u8]) -> Result<Obs, (String, String)> {
    let cfg = config(c);
    let r = engine::run(&cfg, input, &c.cuts).map_err(|e| ("harness".to_string(), e))?;
    let mut obs = Obs::default();
    if r.final_res() != Res::Ok {
        return Ok(obs);
    }
    let ctx = |m: String| format!("{m}\n cuts: {:?}\n input: {}", c.cuts, show(input));
    let mut last_end = 0usize;
    let mut text_end: Option<usize> = None;
    for rec in &r.log {
        let (s, e, tag, is_text, last) = match rec {
            Rec::LocChanged { what, before, after } => {
                return Err(("location-changes-under-mutation".into(), ctx(format!("{what}: {before:?} vs {after:?} (source locations refer to the original input and do not move when the token is edited; set attributes report None)"))));
            }
            Rec::El(x) => (x.start, x.end, true, false, false),
            Rec::Comment { start, end, .. } => (*start, *end, false, false, false),
            Rec::Doctype { start, end, .. } => (*start, *end, false, false, false),
            Rec::Text { start, end, last, .. } => (*start, *end, false, true, *last),
            Rec::EndTag { start, end, .. } => {
                if *end > input.len() || start >= end || input[*start] != b'<' || input[*start + 1] != b'/' || input[*end - 1] != b'>' {
                    return Err(("end-tag-location".into(), ctx(format!("end tag location {start}..{end} is not '</...>'"))));
                }
                continue;
            }
            _ => continue,
        };
        if e > input.len() || s > e {
            return Err(("location-out-of-bounds".into(), ctx(format!("location {s}..{e} outside the {}-byte input", input.len()))));
        }
        if is_text {
            if let Some(te) = text_end {
                if s != te {
                    return Err(("text-chunks-not-contiguous".into(), ctx(format!("text chunk {s}..{e} does not continue at {te}"))));
                }
            } else if s < last_end {
                return Err(("locations-go-backwards".into(), ctx(format!("text chunk at {s} starts before the previous token's end {last_end}"))));
            }
            text_end = if last { None } else { Some(e) };
            if last {
                last_end = e;
            }
        } else {
            if s < last_end {
                return Err(("locations-go-backwards".into(), ctx(format!("token at {s}..{e} starts before the previous token's end {last_end}"))));
            }
            last_end = e;
            if input[s] != b'<' || (e > s && input[e - 1] != b'>') && tag {
                return Err(("tag-location-not-a-tag".into(), ctx(format!("location {s}..{e} does not delimit '<...>': {}", show(&input[s..e])))));
            }
        }
        obs.tokens_checked += 1;
        if spans_cut(&c.cuts, s, e) {
            obs.spanning += 1;
        }
    }
    Ok(obs)
}

impl Prop for C14 {
    fn id(&self) -> &'static str {
        "C14"
    }
    fn rule(&self) -> String {
        "generated documents with ground-truth byte ranges (re-encoded token by token into any of the 36 encodings) x write schedules x handler sets that only observe or that also rewrite earlier content: every element / end tag / comment / doctype location and every attribute name / value location is compared with the ground truth (RefAttr for attributes), text chunk ranges must be contiguous, inside their node and cover it, successive tokens never overlap or go backwards; in the rewriting handler sets every token is modified several times and its locations (incl. attribute name / value locations: unchanged when untouched, None once set) are read again afterwards; plus a self-consistency monitor on tag soup; non-trivial: a token that started in an earlier write than it ended (or text split by a write) was checked; distinct = hash(document, encoding, schedule, handler set)".into()
    }
    fn run_shard(&self, ctx: &mut Ctx<'_>) {
        let n = ctx.budget(150_000, 30_000_000);
        let encs = gen::ascii_compatible_encodings();
        for i in 0..n {
            if i % 32 == 0 && ctx.should_stop() {
                break;
            }
            let soup = i % 5 == 4;
            let rewriting = ctx.rng.chance(1, 3);
            if soup {
                let rawb = ctx.rng.chance(1, 8);
                let input = gen::soup(&mut ctx.rng, 24, SoupKind::Any, rawb);
                let cuts = gen::random_cuts(&mut ctx.rng, input.len());
                let case = Case14 { encoding: "utf-8".into(), doc_hex: hex(&input), doc: None, cuts, rewriting, esi: false };
                ctx.eval();
                match check_soup(&case, &input) {
                    Ok(o) => {
                        ctx.add("soup_tokens_checked", o.tokens_checked as u64);
                        if o.spanning > 0 {
                            ctx.nontrivial(mix(fnv(&input), fnv(format!("{:?}{}", case.cuts, rewriting).as_bytes())));
                        }
                    }
                    Err((key, msg)) => {
                        if key == "harness" {
                            panic!("{msg}");
                        }
                        if !ctx.violation(Violation { key, msg, case: serde_json::to_value(&case).unwrap() }) {
                            return;
                        }
                    }
                }
                continue;
            }
            let enc = if ctx.rng.chance(2, 3) { encoding_rs::UTF_8 } else { *ctx.rng.pick(&encs) };
            let esi = ctx.rng.chance(1, 15);
            let o = structgen::Opts { foreign: ctx.rng.chance(2, 3), max_nodes: 14, esi, long_text: ctx.rng.chance(1, 10), ..Default::default() };
            let d0 = structgen::gen_doc(&mut ctx.rng, &o);
            let doc = if enc == encoding_rs::UTF_8 { d0 } else { d0.transcode(enc, &gen::mappable_chars(enc)) };
            let cuts = gen::random_cuts(&mut ctx.rng, doc.bytes.len());
            let case = Case14 { encoding: enc.name().to_string(), doc_hex: hex(&doc.bytes), doc: Some(describe(&doc)), cuts, rewriting, esi };
            ctx.eval();
            match check_truth(&case, &doc) {
                Ok(o) => {
                    ctx.add("tokens_checked", o.tokens_checked as u64);
                    ctx.add("attributes_checked", o.attrs_checked as u64);
                    ctx.add("text_nodes_checked", o.text_nodes as u64);
                    ctx.add("tokens_spanning_a_write_boundary", o.spanning as u64);
                    if o.after_shift {
                        ctx.count("runs_with_buffer_shift");
                    }
                    if rewriting {
                        ctx.count("runs_rewriting_earlier_content");
                    }
                    ctx.count(&format!("enc:{}", enc.name()));
                    if o.spanning > 0 {
                        ctx.nontrivial(mix(fnv(&doc.bytes), fnv(format!("{:?}{}{}", case.cuts, rewriting, enc.name()).as_bytes())));
                        ctx.sample(|| serde_json::json!({"doc": show(&doc.bytes), "cuts": case.cuts, "encoding": enc.name(), "rewriting": rewriting}));
                    }
                }
                Err((key, msg)) => {
                    if key == "harness" {
                        panic!("{msg}");
                    }
                    // shrink the schedule
                    let mut best = case.clone();
                    let mut bmsg = msg;
                    let mut k = 0;
                    while k < best.cuts.len() {
                        let mut c2 = best.clone();
                        c2.cuts.remove(k);
                        match check_truth(&c2, &doc) {
                            Err((k2, m2)) if k2 == key => {
                                best = c2;
                                bmsg = m2;
                            }
                            _ => k += 1,
                        }
                    }
                    if !ctx.violation(Violation { key, msg: bmsg, case: serde_json::to_value(&best).unwrap() }) {
                        return;
                    }
                }
            }
        }
    }
    fn replay(&self, case: &Value) -> Result<Vec<Violation>, String> {
        let c: Case14 = serde_json::from_value(case.clone()).map_err(|e| e.to_string())?;
        let bytes = unhex(&c.doc_hex);
        let r = match &c.doc {
            Some(d) => check_truth(&c, &undescribe(bytes, d)),
            None => check_soup(&c, &bytes),
        };
        match r {
            Ok(_) => Ok(vec![]),
            Err((key, msg)) => Ok(vec![Violation { key, msg, case: case.clone() }]),
        }
    }
    fn watchdog_s(&self, tier: Tier) -> u64 {
        tier.pick(400, 3000)
    }
}
