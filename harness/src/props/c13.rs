//! C13 Character-encoding fidelity in every supported encoding (encoding_rs whole-buffer oracle).

use super::c04::{describe, undescribe, DocDesc};
use crate::core::{hex, show, unhex, Ctx, Prop, Tier, Violation};
use crate::engine::{self, Config, Content, DocH, ElH, Op, Rec, Res};
use crate::gen;
use crate::rng::{fnv, mix, Rng};
use crate::structgen::{self, Doc, Kind};
use serde_derive::{Deserialize, Serialize};
use serde_json::Value;

pub struct C13;

#[derive(Clone, Debug, Serialize, Deserialize)]
pub enum Case13 {
    /// (a) what handlers read vs whole-buffer decoding of the construct's bytes
    Read { encoding: String, doc_hex: String, doc: DocDesc, cuts: Vec<usize> },
    /// (b) inserted content is encoded into the document encoding
    Insert { encoding: String, strings: Vec<(String, bool)>, cuts: Vec<usize> },
    /// (c) meta charset switching
    Meta {
        initial: String,
        parts: Vec<MetaPart>,
        cuts: Vec<usize>,
        /// content inserted before every non-meta start tag, in place of every comment and at document end (second run)
        #[serde(default)]
        ins: String,
    },
}

#[derive(Clone, Debug, Serialize, Deserialize)]
pub enum MetaPart {
    /// text to be encoded in the encoding in force
    Text(String),
    /// a meta tag with this label (form 0: charset=, 1: http-equiv)
    Meta { label: String, form: u8 },
    Tag(String),
}

fn dec(enc: &'static encoding_rs::Encoding, b: &[u8]) -> String {
    enc.decode_without_bom_handling(b).0.into_owned()
}

#[derive(Default)]
pub struct Obs {
    pub nontrivial: bool,
    pub text_nodes: usize,
    pub malformed: usize,
    pub long_nodes: usize,
    pub switches: usize,
    /// insertions (second run of the meta case) made while an encoding other than the configured one was in force
    pub ins_after_switch: usize,
}

fn is_multibyte(enc: &'static encoding_rs::Encoding) -> bool {
    !enc.is_single_byte()
}

pub fn check_read(encoding: &str, doc: &Doc, cuts: &[usize]) -> Result<Obs, (String, String)> {
    let enc = encoding_rs::Encoding::for_label(encoding.as_bytes()).unwrap();
    let cfg = Config { encoding: encoding.to_string(), probe_attrs: true, el: vec![ElH { selector: "*".into(), element: true, ..Default::default() }], doc: vec![DocH { comments: true, text: true, doctype: true, ..Default::default() }], ..Default::default() };
    let r = engine::run(&cfg, &doc.bytes, cuts).map_err(|e| ("harness".to_string(), e))?;
    let ctx = |m: String| format!("{m}\n encoding: {encoding} cuts: {cuts:?}\n doc: {}", show(&doc.bytes));
    if r.final_res() != Res::Ok {
        return Err(("unexpected-result".into(), ctx(format!("{:?}", r.final_res()))));
    }
    let mut obs = Obs::default();
    let mut texts = doc.toks.iter().filter(|t| matches!(t.kind, Kind::Text { .. }));
    let mut comments = doc.toks.iter().filter(|t| matches!(t.kind, Kind::Comment { .. }));
    let mut cur = String::new();
    for rec in &r.log {
        match rec {
            Rec::Text { text, last, .. } => {
                cur.push_str(text);
                if *last {
                    let Some(t) = texts.next() else { return Err(("unexpected-text".into(), ctx("more text nodes than expected".into()))) };
                    let bytes = &doc.bytes[t.start..t.end];
                    let exp = dec(enc, bytes);
                    if cur != exp {
                        let i = cur.chars().zip(exp.chars()).position(|(a, b)| a != b).unwrap_or(0);
                        return Err((
                            "text-decoded-wrongly".into(),
                            ctx(format!("text node at {}..{} ({} bytes): handlers read {:?}… but {} decodes those bytes to {:?}… (first difference at char {i})", t.start, t.end, bytes.len(), cur.chars().skip(i.saturating_sub(5)).take(20).collect::<String>(), enc.name(), exp.chars().skip(i.saturating_sub(5)).take(20).collect::<String>())),
                        ));
                    }
                    obs.text_nodes += 1;
                    if exp.contains('\u{fffd}') {
                        obs.malformed += 1;
                    }
                    if bytes.len() > 1024 {
                        obs.long_nodes += 1;
                    }
                    if bytes.iter().any(|b| *b >= 0x80) && cuts.iter().any(|&c| c > t.start && c < t.end) {
                        obs.nontrivial = true;
                    }
                    if bytes.len() > 1024 && bytes.iter().any(|b| *b >= 0x80) {
                        obs.nontrivial = true;
                    }
                    cur.clear();
                }
            }
            Rec::El(e) => {
                // names and attribute values (raw) vs whole-buffer decoding of the tag's bytes
                let tag = &doc.bytes[e.start.min(doc.bytes.len())..e.end.min(doc.bytes.len())];
                if let Some(p) = crate::refattr::parse_tag(tag) {
                    if p.attrs.len() == e.attrs.len() {
                        for (a, ra) in e.attrs.iter().zip(p.attrs.iter()) {
                            let n = dec(enc, &tag[ra.name.0..ra.name.1]);
                            let v = dec(enc, &tag[ra.value.0..ra.value.1]);
                            if a.name_pc != n || a.value != v {
                                return Err(("attribute-decoded-wrongly".into(), ctx(format!("attribute read as {:?}={:?}, the bytes decode to {:?}={:?} in tag {}", a.name_pc, a.value, n, v, show(tag)))));
                            }
                            if tag[ra.value.0..ra.value.1].first().map_or(false, |b| *b >= 0xef) {
                                obs.nontrivial = true;
                            }
                        }
                    }
                    // names handed back to the lookup API find their attribute again in every encoding (a name that was read
                    // as a string is a valid key whatever bytes encode it)
                    for (n, got, has) in &e.probes {
                        let want = e.attrs.iter().find(|a| a.name.eq_ignore_ascii_case(n));
                        if *got != want.map(|a| a.value.clone()) || *has != want.is_some() {
                            return Err(("attribute-lookup-by-decoded-name".into(), ctx(format!("get_attribute({n:?}) = {got:?}, has_attribute = {has}; attributes() lists {:?} in tag {}", e.attrs.iter().map(|a| (&a.name, &a.value)).collect::<Vec<_>>(), show(tag)))));
                        }
                    }
                    let n = dec(enc, &tag[p.name.0..p.name.1]);
                    if e.name_pc != n {
                        return Err(("name-decoded-wrongly".into(), ctx(format!("tag name read as {:?}, the bytes decode to {:?}", e.name_pc, n))));
                    }
                }
            }
            Rec::Comment { text, .. } => {
                let Some(t) = comments.next() else { return Err(("unexpected-comment".into(), ctx("more comments than expected".into()))) };
                if let Kind::Comment { text: (a, b) } = t.kind {
                    let exp = dec(enc, &doc.bytes[a..b]);
                    if *text != exp {
                        return Err(("comment-decoded-wrongly".into(), ctx(format!("comment text read as {text:?}, the bytes decode to {exp:?}"))));
                    }
                }
            }
            _ => {}
        }
    }
    if texts.next().is_some() {
        return Err(("missing-text".into(), ctx("not all text nodes were delivered".into())));
    }
    Ok(obs)
}

pub fn check_insert(encoding: &str, strings: &[(String, bool)], cuts: &[usize]) -> Result<Obs, (String, String)> {
    let enc = encoding_rs::Encoding::for_label(encoding.as_bytes()).unwrap();
    // <p>x</p> with before / prepend / append / after on p, a comment replaced, and a document-end append
    let input = b"<p>x</p><!--c-->".to_vec();
    let c = |i: usize| Content { s: strings[i % strings.len()].0.clone(), html: strings[i % strings.len()].1, streaming: i % 3 == 2 };
    let mut cfg = Config { encoding: encoding.to_string(), ..Default::default() };
    cfg.el.push(ElH { selector: "p".into(), element: true, always_el: vec![Op::Before(c(0)), Op::Prepend(c(1)), Op::Append(c(2)), Op::After(c(3)), Op::SetAttr("title".into(), strings[4 % strings.len()].0.clone())], ..Default::default() });
    cfg.doc.push(DocH { comments: true, end: true, always_comment: vec![Op::Replace(c(5))], always_end: vec![Op::Append(c(6))], ..Default::default() });
    let r = engine::run(&cfg, &input, cuts).map_err(|e| ("harness".to_string(), e))?;
    if r.final_res() != Res::Ok {
        return Err(("unexpected-result".into(), format!("{:?}", r.final_res())));
    }
    let e = |i: usize| -> Vec<u8> {
        let (s, html) = &strings[i % strings.len()];
        let s2 = if *html { s.clone() } else { s.replace('&', "&amp;").replace('<', "&lt;").replace('>', "&gt;") };
        enc.encode(&s2).0.into_owned()
    };
    let mut exp: Vec<u8> = vec![];
    exp.extend(e(0));
    exp.extend(b"<p title=\"");
    exp.extend(enc.encode(&strings[4 % strings.len()].0.replace('"', "&quot;")).0.iter());
    exp.extend(b"\">");
    exp.extend(e(1));
    exp.extend(b"x");
    exp.extend(e(2));
    exp.extend(b"</p>");
    exp.extend(e(3));
    exp.extend(e(5));
    exp.extend(e(6));
    let out = r.out();
    if out != exp {
        return Err((
            "inserted-content-encoded-wrongly".into(),
            format!("inserted content is not {}(content) with numeric character references for unmappable characters\n strings: {strings:?}\n output:   {}\n expected: {}", enc.name(), show(&out), show(&exp)),
        ));
    }
    let unmappable = strings.iter().any(|(s, _)| enc.encode(s).2);
    Ok(Obs { nontrivial: strings.iter().any(|(s, _)| !s.is_ascii()), malformed: unmappable as usize, ..Default::default() })
}

fn label_encoding(label: &str) -> Option<&'static encoding_rs::Encoding> {
    let e = encoding_rs::Encoding::for_label_no_replacement(label.as_bytes())?;
    if e.is_ascii_compatible() {
        Some(e)
    } else {
        None
    }
}

pub fn check_meta(initial: &str, parts: &[MetaPart], cuts: &[usize], ins: &str) -> Result<Obs, (String, String)> {
    let e0 = encoding_rs::Encoding::for_label(initial.as_bytes()).unwrap();
    // build the input: the encoding in force changes after the first valid meta tag
    let mut cur = e0;
    let mut switched = false;
    let mut input: Vec<u8> = vec![];
    // expected text nodes (decoded) in order, and the offset where the new encoding starts
    let mut expect_texts: Vec<String> = vec![];
    let mut switch_at: Option<usize> = None;
    let mut new_enc = e0;
    // second run: `ins` (Html) before every non-meta start tag, instead of every comment, and appended at document end;
    // each insertion must be encoded in the encoding in force at that token
    let mut exp_out: Vec<u8> = vec![];
    let mut insertions_after_switch = 0usize;
    for p in parts {
        match p {
            MetaPart::Text(s) => {
                let b = cur.encode(s).0.into_owned();
                exp_out.extend(&b);
                let d = dec(cur, &b);
                if let Some(last) = expect_texts.last_mut() {
                    // adjacent text parts are one node only if no tag in between: parts alternate, so always push
                    let _ = last;
                }
                expect_texts.push(d);
                input.extend(b);
            }
            MetaPart::Tag(t) => {
                input.extend(t.as_bytes());
                expect_texts.push(String::new()); // separator marker
                if t.starts_with("<!--") {
                    exp_out.extend(cur.encode(ins).0.iter());
                    insertions_after_switch += usize::from(cur != e0);
                } else if t.starts_with("</") {
                    exp_out.extend(t.as_bytes());
                } else {
                    exp_out.extend(cur.encode(ins).0.iter());
                    exp_out.extend(t.as_bytes());
                    insertions_after_switch += usize::from(cur != e0);
                }
            }
            MetaPart::Meta { label, form } => {
                let tag = if *form == 0 { format!("<meta charset=\"{label}\">") } else { format!("<meta http-equiv=\"Content-Type\" content=\"text/html; charset={label}\">") };
                input.extend(tag.as_bytes());
                exp_out.extend(tag.as_bytes());
                expect_texts.push(String::new());
                if !switched {
                    if let Some(e) = label_encoding(label) {
                        switched = true;
                        if e != cur {
                            switch_at = Some(input.len());
                            new_enc = e;
                        }
                        cur = e;
                    }
                }
            }
        }
    }
    let cfg = Config { encoding: initial.to_string(), adjust_charset: true, doc: vec![DocH { text: true, ..Default::default() }], ..Default::default() };
    let r = engine::run(&cfg, &input, cuts).map_err(|e| ("harness".to_string(), e))?;
    let ctx = |m: String| format!("{m}\n initial encoding: {initial} parts: {parts:?} cuts: {cuts:?}\n input: {}", show(&input));
    if r.final_res() != Res::Ok {
        return Err(("unexpected-result".into(), ctx(format!("{:?}", r.final_res()))));
    }
    // texts
    let mut got: Vec<String> = vec![];
    let mut curt = String::new();
    for rec in &r.log {
        if let Rec::Text { text, last, .. } = rec {
            curt.push_str(text);
            if *last {
                got.push(std::mem::take(&mut curt));
            }
        }
    }
    // expected: merge text parts separated by nothing
    let mut exp: Vec<String> = vec![];
    let mut acc: Option<String> = None;
    for t in &expect_texts {
        if t.is_empty() {
            if let Some(a) = acc.take() {
                if !a.is_empty() {
                    exp.push(a);
                }
            }
        } else {
            acc.get_or_insert_with(String::new).push_str(t);
        }
    }
    if let Some(a) = acc {
        if !a.is_empty() {
            exp.push(a);
        }
    }
    if got != exp {
        return Err(("text-decoded-in-wrong-encoding".into(), ctx(format!("text nodes read (A) vs expected with the encoding switching right after the first valid meta tag (B): {}", crate::norm::first_diff(&got, &exp)))));
    }
    // encoding notifications: initial one first; at most one switch; before any byte in the new encoding
    let encs: Vec<(usize, &String)> = r.log.iter().enumerate().filter_map(|(i, x)| if let Rec::Enc(e) = x { Some((i, e)) } else { None }).collect();
    if encs.is_empty() || encs[0].1 != e0.name() {
        return Err(("missing-initial-set-encoding".into(), ctx(format!("set_encoding calls: {encs:?}"))));
    }
    let expected_switches = usize::from(switch_at.is_some());
    if encs.len() - 1 != expected_switches {
        return Err(("wrong-number-of-encoding-switches".into(), ctx(format!("{} encoding switches notified, expected {expected_switches}: {encs:?}", encs.len() - 1))));
    }
    if let Some(at) = switch_at {
        if encs[1].1 != new_enc.name() {
            return Err(("switched-to-wrong-encoding".into(), ctx(format!("switched to {} instead of {}", encs[1].1, new_enc.name()))));
        }
        // bytes emitted before the notification: exactly the input up to and including the meta tag
        let idx = encs[1].0;
        let mut emitted = 0usize;
        for x in &r.log[..idx] {
            if let Rec::Chunk(c) = x {
                emitted += c.len();
            }
        }
        if emitted > at {
            return Err(("set-encoding-after-new-encoding-bytes".into(), ctx(format!("the sink was told about {} only after {emitted} bytes had been emitted; bytes from offset {at} on are in the new encoding", new_enc.name()))));
        }
    }
    // second run: content inserted by handlers is encoded in the encoding in force at its token (also at document end)
    if !ins.is_empty() {
        exp_out.extend(cur.encode(ins).0.iter());
        insertions_after_switch += usize::from(cur != e0);
        let c = || Content { s: ins.to_string(), html: true, streaming: ins.len() % 2 == 1 };
        let mut cfg = Config { encoding: initial.to_string(), adjust_charset: true, ..Default::default() };
        cfg.el.push(ElH { selector: "p, br, div, span".into(), element: true, always_el: vec![Op::Before(c())], ..Default::default() });
        cfg.doc.push(DocH { comments: true, end: true, always_comment: vec![Op::Replace(c())], always_end: vec![Op::Append(c())], ..Default::default() });
        let r2 = engine::run(&cfg, &input, cuts).map_err(|e| ("harness".to_string(), e))?;
        if r2.final_res() != Res::Ok {
            return Err(("unexpected-result".into(), ctx(format!("inserting run: {:?}", r2.final_res()))));
        }
        let out = r2.out();
        if out != exp_out {
            return Err((
                "inserted-content-not-in-the-encoding-in-force".into(),
                ctx(format!(
                    "{ins:?} inserted before start tags, in place of comments and at document end must be encoded in the encoding in force at that token ({} after the switch)\n output:   {}\n expected: {}",
                    cur.name(),
                    show(&out),
                    show(&exp_out)
                )),
            ));
        }
    }
    Ok(Obs { nontrivial: switch_at.is_some() || parts.iter().filter(|p| matches!(p, MetaPart::Meta { .. })).count() >= 2, switches: expected_switches, ins_after_switch: if ins.is_empty() { 0 } else { insertions_after_switch }, ..Default::default() })
}

pub fn check(c: &Case13) -> Result<Obs, (String, String)> {
    match c {
        Case13::Read { encoding, doc_hex, doc, cuts } => check_read(encoding, &undescribe(unhex(doc_hex), doc), cuts),
        Case13::Insert { encoding, strings, cuts } => check_insert(encoding, strings, cuts),
        Case13::Meta { initial, parts, cuts, ins } => check_meta(initial, parts, cuts, ins),
    }
}

/// hostile bytes for a text node: malformed sequences, lone lead bytes, truncated characters (never '<')
fn hostile(rng: &mut Rng, enc: &'static encoding_rs::Encoding, good: &[char]) -> Vec<u8> {
    let mut v: Vec<u8> = vec![];
    for _ in 0..rng.range(1, 6) {
        match rng.below(6) {
            0 => v.push(rng.range(0x80, 0xff) as u8),
            1 => {
                // a real character cut short
                if !good.is_empty() {
                    let c = *rng.pick(good);
                    let b = enc.encode(&c.to_string()).0.into_owned();
                    let k = rng.range(1, b.len());
                    v.extend(&b[..k]);
                }
            }
            2 => {
                v.push(rng.range(0x81, 0xfe) as u8);
                v.push(*rng.pick(b"a0 ~@[\x7f"));
            }
            3 => v.extend(b"ok "),
            _ => {
                if !good.is_empty() {
                    let c = *rng.pick(good);
                    v.extend(enc.encode(&c.to_string()).0.iter());
                }
            }
        }
    }
    v.retain(|b| *b != b'<' && *b != b'&' && *b != 0);
    v
}

impl Prop for C13 {
    fn id(&self) -> &'static str {
        "C13"
    }
    fn rule(&self) -> String {
        "(a) generated documents re-encoded into each of the 36 encodings with representable characters, injected malformed / truncated sequences and text nodes of 1-8 KiB, under schedules that cut inside multi-byte characters: text (per node) and comment text read by handlers vs encoding_rs whole-buffer decode of the ground-truth bytes; (b) inserted content (before/prepend/append/after/replace/set_attribute/document end, Html and Text, streaming) with mappable and unmappable characters vs encoding_rs encode with numeric character references; (c) 0-3 meta charset declarations (valid / invalid / non-ASCII-compatible labels, charset and http-equiv forms) at varied positions: text decoded in the right encoding on each side of the first valid declaration, exactly one switch, set_encoding before any byte of the new encoding, and (second run) content inserted before start tags, in place of comments and at document end is encoded in the encoding in force at that token; (d) AsciiCompatibleEncoding::new over all 40 encoding_rs encodings; non-trivial: non-ASCII bytes with a cut or a 1024-byte buffer boundary inside the node, unmappable insertions, or a charset switch; distinct = hash(case)".into()
    }
    fn run_shard(&self, ctx: &mut Ctx<'_>) {
        let n = ctx.budget(400_000, 24_000_000);
        let encs = gen::ascii_compatible_encodings();
        // (d) exhaustive
        if ctx.shard == 0 {
            let mut all: Vec<&'static encoding_rs::Encoding> = encs.clone();
            all.extend(lol_html::test_utils::NON_ASCII_COMPATIBLE_ENCODINGS.iter().copied());
            for e in &all {
                ctx.eval();
                let accepted = lol_html::AsciiCompatibleEncoding::new(e).is_some();
                // independent criterion: ASCII bytes decode to the same ASCII characters and back
                let ascii: Vec<u8> = (0x20u8..0x7f).collect();
                let compatible = e.decode_without_bom_handling(&ascii).0.as_bytes() == &ascii[..] && e.encode(std::str::from_utf8(&ascii).unwrap()).0.as_ref() == &ascii[..] && *e != encoding_rs::ISO_2022_JP;
                if accepted != compatible {
                    let case = serde_json::json!({"encoding": e.name()});
                    if !ctx.violation(Violation { key: "ascii-compatibility-check".into(), msg: format!("AsciiCompatibleEncoding::new({}) = {}, but ASCII round-trip says {}", e.name(), accepted, compatible), case }) {
                        return;
                    }
                }
                ctx.count("encodings_checked_for_ascii_compatibility");
            }
        }
        for i in 0..n {
            if i % 32 == 0 && ctx.should_stop() {
                break;
            }
            let enc = *ctx.rng.pick(&encs);
            let good = gen::mappable_chars(enc);
            let case = match i % 4 {
                0 | 1 => {
                    let o = structgen::Opts { foreign: ctx.rng.chance(1, 3), max_nodes: 8, long_text: ctx.rng.chance(1, 4), weird_attrs: false, ..Default::default() };
                    let d0 = structgen::gen_doc(&mut ctx.rng, &o);
                    let mut doc = d0.transcode(enc, &good);
                    // inject hostile bytes into text tokens (Data text only; keeps token structure)
                    if ctx.rng.chance(2, 3) {
                        let mut nd = Doc::default();
                        for t in &doc.toks {
                            let s = nd.bytes.len();
                            let mut kind = t.kind.clone();
                            match &t.kind {
                                Kind::Text { tt } if *tt == "Data" || *tt == "RCData" || *tt == "RawText" => {
                                    nd.bytes.extend(&doc.bytes[t.start..t.end]);
                                    if ctx.rng.bool() {
                                        nd.bytes.extend(hostile(&mut ctx.rng, enc, &good));
                                    }
                                }
                                Kind::Comment { text } => {
                                    // byte-order-mark look-alikes at the start of the comment text must be read as text
                                    let pre: &[u8] = if ctx.rng.chance(1, 3) { *ctx.rng.pick(&[&b"\xef\xbb\xbf"[..], b"\xff\xfe", b"\xfe\xff"]) } else { b"" };
                                    nd.bytes.extend(&doc.bytes[t.start..text.0]);
                                    nd.bytes.extend(pre);
                                    nd.bytes.extend(&doc.bytes[text.0..t.end]);
                                    kind = Kind::Comment { text: (s + (text.0 - t.start), s + (text.1 - t.start) + pre.len()) };
                                }
                                Kind::Start { .. } => {
                                    let tag = &doc.bytes[t.start..t.end];
                                    let mut at: Option<usize> = None;
                                    // (annotation-xml's encoding attribute decides the content model: left alone)
                                    if ctx.rng.chance(1, 3) && !tag.to_ascii_lowercase().starts_with(b"<annotation-xml") {
                                        if let Some(p) = crate::refattr::parse_tag(tag) {
                                            // only quoted values: an unquoted value may not start with arbitrary bytes safely
                                            at = p.attrs.iter().filter(|a| a.has_value && a.value.0 > 0 && matches!(tag[a.value.0 - 1], b'"' | b'\'')).map(|a| a.value.0).next();
                                        }
                                    }
                                    match at {
                                        Some(off) => {
                                            let pre: &[u8] = *ctx.rng.pick(&[&b"\xef\xbb\xbf"[..], b"\xff\xfe", b"\xfe\xff"]);
                                            nd.bytes.extend(&tag[..off]);
                                            nd.bytes.extend(pre);
                                            nd.bytes.extend(&tag[off..]);
                                        }
                                        None => nd.bytes.extend(tag),
                                    }
                                }
                                _ => nd.bytes.extend(&doc.bytes[t.start..t.end]),
                            }
                            let e = nd.bytes.len();
                            nd.toks.push(structgen::Tok { start: s, end: e, kind });
                        }
                        doc = nd;
                    }
                    // cuts aimed at non-ASCII bytes
                    let hi: Vec<usize> = doc.bytes.iter().enumerate().filter(|(_, b)| **b >= 0x80).map(|(i, _)| i).collect();
                    let mut cuts = gen::random_cuts(&mut ctx.rng, doc.bytes.len());
                    if !hi.is_empty() {
                        for _ in 0..ctx.rng.range(1, 4) {
                            let p = *ctx.rng.pick(&hi);
                            cuts.push(p);
                            if ctx.rng.bool() {
                                cuts.push(p + 1);
                            }
                        }
                        cuts.sort_unstable();
                    }
                    Case13::Read { encoding: enc.name().into(), doc_hex: hex(&doc.bytes), doc: describe(&doc), cuts }
                }
                2 => {
                    let mut strings = vec![];
                    for _ in 0..ctx.rng.range(1, 4) {
                        let mut s = String::new();
                        for _ in 0..ctx.rng.range(1, 8) {
                            match ctx.rng.below(5) {
                                0 if !good.is_empty() => s.push(*ctx.rng.pick(&good)),
                                1 => s.push(*ctx.rng.pick(gen::CHAR_POOL)),
                                2 => s.push_str(*ctx.rng.pick(&["<b>", "&", "\"", ">", "x", " "])),
                                3 => {
                                    // long run so the encoder's 63-byte stack buffer fills up
                                    let c = if good.is_empty() { 'x' } else { *ctx.rng.pick(&good) };
                                    if ctx.rng.bool() {
                                        for _ in 0..ctx.rng.range(20, 90) {
                                            s.push(c);
                                        }
                                    } else {
                                        // mixed run (ASCII / mappable / unmappable): every alignment against the encoder's
                                        // buffers, incl. output that fills a buffer exactly, and runs longer than its heap buffer
                                        let n = if ctx.rng.chance(1, 12) { ctx.rng.range(1000, 6000) } else { ctx.rng.range(30, 260) };
                                        for _ in 0..n {
                                            match ctx.rng.below(8) {
                                                0 | 1 => s.push(*ctx.rng.pick(&['a', 'z', ' ', '0'])),
                                                2 => s.push(*ctx.rng.pick(gen::CHAR_POOL)),
                                                _ => s.push(if good.is_empty() { 'y' } else { *ctx.rng.pick(&good) }),
                                            }
                                        }
                                    }
                                }
                                _ => s.push_str("abc"),
                            }
                        }
                        strings.push((s, ctx.rng.bool()));
                    }
                    Case13::Insert { encoding: enc.name().into(), strings, cuts: gen::random_cuts(&mut ctx.rng, 16) }
                }
                _ => {
                    let enc2 = *ctx.rng.pick(&encs);
                    let good2 = gen::mappable_chars(enc2);
                    let labels: Vec<String> = vec![enc2.name().to_string(), enc2.name().to_ascii_lowercase(), "utf-16".into(), "UTF-16LE".into(), "bogus".into(), "iso-2022-jp".into(), "replacement".into(), "latin1".into(), "utf8".into(), enc.name().to_string(), "x-user-defined".into(), "".into()];
                    let mut parts = vec![];
                    let nparts = ctx.rng.range(2, 7);
                    let mut seen_meta = false;
                    for _ in 0..nparts {
                        match ctx.rng.below(4) {
                            0 => parts.push(MetaPart::Meta { label: ctx.rng.pick(&labels).clone(), form: ctx.rng.below(2) as u8 }),
                            1 => parts.push(MetaPart::Tag((*ctx.rng.pick(&["<p>", "</p>", "<br>", "<!--c-->", "<div a=b>", "<span>", "</span>"])).to_string())),
                            _ => {
                                let pool = if seen_meta { &good2 } else { &good };
                                let mut s = String::from("t");
                                for _ in 0..ctx.rng.range(0, 5) {
                                    if !pool.is_empty() && ctx.rng.bool() {
                                        s.push(*ctx.rng.pick(pool));
                                    } else {
                                        s.push('x');
                                    }
                                }
                                if !matches!(parts.last(), Some(MetaPart::Text(_))) {
                                    parts.push(MetaPart::Text(s));
                                }
                            }
                        }
                        if matches!(parts.last(), Some(MetaPart::Meta { .. })) {
                            seen_meta = true;
                        }
                    }
                    // inserted content: characters of either encoding's repertoire, unmappable ones, ASCII
                    let mut ins = String::new();
                    for _ in 0..ctx.rng.range(1, 6) {
                        match ctx.rng.below(4) {
                            0 if !good.is_empty() => ins.push(*ctx.rng.pick(&good)),
                            1 if !good2.is_empty() => ins.push(*ctx.rng.pick(&good2)),
                            2 => ins.push(*ctx.rng.pick(gen::CHAR_POOL)),
                            _ => ins.push('i'),
                        }
                    }
                    Case13::Meta { initial: enc.name().into(), parts, cuts: vec![], ins }
                }
            };
            // schedules for meta cases are derived from the built input: use a few generic cut points
            let case = match case {
                Case13::Meta { initial, parts, ins, .. } => {
                    let k = ctx.rng.below(4);
                    let cuts: Vec<usize> = (0..k).map(|_| ctx.rng.below(200)).collect::<std::collections::BTreeSet<_>>().into_iter().collect();
                    Case13::Meta { initial, parts, cuts, ins }
                }
                c => c,
            };
            ctx.eval();
            match check(&case) {
                Ok(o) => {
                    ctx.add("text_nodes_compared", o.text_nodes as u64);
                    ctx.add("text_nodes_with_malformed_sequences", o.malformed as u64);
                    ctx.add("text_nodes_longer_than_decoder_buffer", o.long_nodes as u64);
                    ctx.add("charset_switches", o.switches as u64);
                    ctx.add("insertions_encoded_after_a_charset_switch", o.ins_after_switch as u64);
                    ctx.count(match &case {
                        Case13::Read { .. } => "read_cases",
                        Case13::Insert { .. } => "insert_cases",
                        Case13::Meta { .. } => "meta_cases",
                    });
                    if let Case13::Read { encoding, .. } = &case {
                        ctx.count(&format!("enc:{encoding}"));
                        let _ = is_multibyte(enc);
                    }
                    if o.nontrivial {
                        ctx.nontrivial(fnv(serde_json::to_string(&case).unwrap().as_bytes()));
                        ctx.sample(|| match &case {
                            Case13::Read { encoding, doc_hex, cuts, .. } => serde_json::json!({"kind":"read","encoding":encoding,"doc":show(&unhex(doc_hex)),"cuts":cuts}),
                            other => serde_json::to_value(other).unwrap(),
                        });
                    }
                }
                Err((key, msg)) => {
                    if key == "harness" {
                        panic!("{msg}");
                    }
                    if !ctx.violation(Violation { key, msg, case: serde_json::to_value(&case).unwrap() }) {
                        return;
                    }
                }
            }
        }
        let _ = mix(0, 0);
    }
    fn replay(&self, case: &Value) -> Result<Vec<Violation>, String> {
        if case.get("encoding").is_some() && case.get("Read").is_none() && case.get("Insert").is_none() && case.get("Meta").is_none() {
            return Ok(vec![]);
        }
        let c: Case13 = serde_json::from_value(case.clone()).map_err(|e| e.to_string())?;
        match check(&c) {
            Ok(_) => Ok(vec![]),
            Err((key, msg)) => Ok(vec![Violation { key, msg, case: case.clone() }]),
        }
    }
    fn watchdog_s(&self, tier: Tier) -> u64 {
        tier.pick(400, 3000)
    }
}
