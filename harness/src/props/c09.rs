//! C09 Low output latency: bytes emitted after each write() are a function of the bytes written
//! so far only, and only an unfinished trailing construct is held back.

use super::Case;
use crate::core::{show, Ctx, Prop, Tier, Violation};
use crate::engine::{self, Config, ElH, Res};
use crate::gen::{self, SoupKind};
use crate::rng::{fnv, mix};
use crate::structgen;
use serde_json::Value;

pub struct C09;

/// `^</?[A-Za-z][^\t\n\f\r />]*$`
pub fn is_unfinished_tag_through_name(h: &[u8]) -> bool {
    if h.first() != Some(&b'<') {
        return false;
    }
    let mut i = 1;
    if h.get(i) == Some(&b'/') {
        i += 1;
    }
    match h.get(i) {
        Some(c) if c.is_ascii_alphabetic() => {}
        _ => return false,
    }
    h[i..].iter().all(|c| !matches!(c, b'\t' | b'\n' | b'\x0c' | b'\r' | b' ' | b'/' | b'>'))
}

pub const LOOKAHEAD_ALLOWANCE: usize = 16;

#[derive(Default)]
pub struct Obs {
    pub prefixes: usize,
    pub nonzero_pending: usize,
    pub max_lookahead: usize,
    pub held_tag_names: usize,
    pub must_be_zero_checked: usize,
    pub single_token_checked: usize,
    pub foreign_name_bound_checked: usize,
}

/// Start tags for which lol-html's tree-builder simulator asks for the complete lexeme even when nothing is captured
/// (the tag is then legitimately held whole, DESIGN.md §6): `svg` / `math` roots (self-closing flag), `font` in foreign
/// content (color / size / face), integration points (self-closing flag), and in MathML every name that has no
/// LocalNameHash (candidate `annotation-xml`, whose `encoding` attribute decides).
pub fn simulator_may_need_lexeme(name: &str, ns: structgen::Ns) -> bool {
    let n = name.to_ascii_lowercase();
    // `font` with color / size / face breaks out of foreign content: ground truth then says Html for a tag that was met in svg / math
    if n == "svg" || n == "math" || n == "font" {
        return true;
    }
    let hashable = n.len() <= 12 && n.bytes().all(|b| b.is_ascii_lowercase() || (b'1'..=b'6').contains(&b));
    match ns {
        structgen::Ns::Html => false,
        structgen::Ns::Svg => n == "font" || structgen::SVG_HIP.iter().any(|x| x.eq_ignore_ascii_case(&n)),
        structgen::Ns::MathMl => n == "font" || structgen::MATH_TIP.contains(&n.as_str()) || !hashable,
    }
}

/// `truth`: optional ground truth of the document (token spans), enabling the absolute bounds
pub fn check(cfg: &Config, input: &[u8], cuts: &[usize], html_only: bool, truth: Option<&structgen::Doc>) -> Result<Obs, (String, String)> {
    let mut cfg = cfg.clone();
    cfg.skip_end = true;
    let r = engine::run(&cfg, input, cuts).map_err(|e| ("harness".to_string(), e))?;
    let mut obs = Obs::default();
    match r.final_res() {
        Res::Ok => {}
        Res::Panic(m) => return Err(("panic".into(), format!("panic: {m}\n input: {}", show(input)))),
        Res::Err(_) => return Ok(obs), // strict-mode refusals are not C09's business
    }
    let series = r.pending_series();
    let no_handlers = !cfg.has_handlers();
    // with text handlers, malformed bytes are normalised (C01's exception) and byte counts no longer line up
    let bytes_line_up = no_handlers || std::str::from_utf8(input).is_ok();
    for &(l, out) in &series {
        obs.prefixes += 1;
        let prefix = &input[..l];
        // (1) schedule independence: a fresh rewriter given the same prefix in one write
        let f = engine::run(&cfg, prefix, &[]).map_err(|e| ("harness".to_string(), e))?;
        let fs = f.pending_series();
        let Some(&(_, fout)) = fs.last() else {
            if f.ok() {
                return Err(("harness".into(), "fresh run produced no series".into()));
            }
            continue;
        };
        if fout != out {
            return Err((
                "pending-depends-on-schedule".into(),
                format!(
                    "after writing {l} bytes with schedule {cuts:?} the rewriter had emitted {out} bytes, a fresh rewriter given the same prefix in one write emitted {fout}\n prefix: {}",
                    show(prefix)
                ),
            ));
        }
        if !bytes_line_up {
            continue;
        }
        if out > l {
            // observers only: can never emit more than was written
            return Err(("emitted-more-than-written".into(), format!("{out} bytes emitted after {l} written\n prefix: {}", show(prefix))));
        }
        let held = &prefix[out..];
        if !held.is_empty() {
            obs.nonzero_pending += 1;
        }
        // (2) absolute bound, no handlers, HTML namespace
        if no_handlers && html_only && !held.is_empty() {
            if is_unfinished_tag_through_name(held) {
                obs.held_tag_names += 1;
            } else if held.len() <= LOOKAHEAD_ALLOWANCE {
                obs.max_lookahead = obs.max_lookahead.max(held.len());
            } else {
                return Err((
                    "holds-more-than-a-tag-name".into(),
                    format!("no handlers registered, yet {} bytes are held back after a write: {}\n prefix: {}", held.len(), show(held), show(prefix)),
                ));
            }
        }
        // (3) ground truth bounds
        if let Some(doc) = truth {
            let (at_boundary, tok_start) = doc.classify_prefix(l);
            if at_boundary && no_handlers {
                obs.must_be_zero_checked += 1;
                if !held.is_empty() {
                    return Err((
                        "holds-bytes-after-complete-construct".into(),
                        format!("no handlers; the prefix ends in ordinary text or right after a complete tag/comment/doctype, yet {} bytes are held: {}\n prefix: {}", held.len(), show(held), show(prefix)),
                    ));
                }
            }
            // (3b) no handlers, start tag in foreign content (or HTML inside an integration point): unless the tree-builder
            // simulator needs that tag's attributes / self-closing flag (§6), only '<' through the name may be held
            if no_handlers && !held.is_empty() {
                if let Some(t) = doc.toks.iter().find(|t| l > t.start && l < t.end) {
                    if let structgen::Kind::Start { name, ns, .. } = &t.kind {
                        if !simulator_may_need_lexeme(name, *ns) {
                            obs.foreign_name_bound_checked += usize::from(*ns != structgen::Ns::Html);
                            if !(is_unfinished_tag_through_name(held) || held.len() <= LOOKAHEAD_ALLOWANCE) {
                                return Err((
                                    "holds-more-than-a-tag-name".into(),
                                    format!(
                                        "no handlers registered, yet {} bytes are held back after a write inside the start tag <{name}> ({ns:?} namespace; not a tag whose attributes decide the content model): {}\n prefix: {}",
                                        held.len(),
                                        show(held),
                                        show(prefix)
                                    ),
                                ));
                            }
                        }
                    }
                }
            }
            if let Some(ts) = tok_start {
                obs.single_token_checked += 1;
                // at most the single unfinished token (plus up to 3 bytes of a split multi-byte character before it)
                if out + 3 < ts {
                    return Err((
                        "holds-more-than-the-unfinished-token".into(),
                        format!("the unfinished token starts at byte {ts} but output stopped at byte {out} (prefix length {l})\n prefix: {}", show(prefix)),
                    ));
                }
            }
        }
    }
    Ok(obs)
}

impl Prop for C09 {
    fn id(&self) -> &'static str {
        "C09"
    }
    fn rule(&self) -> String {
        "for every write boundary of a schedule (all prefixes for inputs <= 300 bytes) pending = bytes_in - bytes_out is compared with a fresh rewriter given the same prefix in one write; handler sets none / non-matching selectors / observers; with no handlers on HTML-namespace input the held bytes must match ^</?[A-Za-z][^\\t\\n\\f\\r />]*$ or be <= 16 bytes; on generated documents with ground-truth token spans (a third of them with svg / math islands; there the name bound is asserted for every start tag whose attributes the tree-builder simulator does not need): nothing held at a construct boundary (no handlers) and never more than the single unfinished token (observers); a prefix is non-trivial when it ends inside a construct (pending > 0) or right after one; distinct = hash(prefix, config)".into()
    }
    fn assumptions(&self) -> Vec<String> {
        vec![
            "inside svg/math the tag scanner may legitimately request a full lexeme (DESIGN.md §6): there the 'through its name' bound is asserted only on generated documents with ground-truth namespaces and only for start tags whose lexeme the tree-builder simulator does not need (not svg, math, font, integration points, unhashable names in MathML)".into(),
            "held bytes are identified as input[bytes_out..bytes_in], which relies on pass-through identity (C01) for observer configurations".into(),
        ]
    }
    fn run_shard(&self, ctx: &mut Ctx<'_>) {
        let n = ctx.budget(40_000, 5_000_000);
        for i in 0..n {
            if i % 16 == 0 && ctx.should_stop() {
                break;
            }
            let mode = ctx.rng.below(10);
            let mut cfg = Config { esi: ctx.rng.chance(1, 12), ..Default::default() };
            // handler sets: none / non-matching selectors / observers
            match ctx.rng.below(4) {
                0 | 1 => {}
                2 => cfg.el.push(ElH { selector: (*ctx.rng.pick(&["nosuchtag", "nosuch[a=b]", "nosuch > x", "zz:nth-child(3)"])).into(), element: true, text: ctx.rng.bool(), ..Default::default() }),
                _ => gen::observer_config(&mut ctx.rng, &mut cfg),
            }
            let (input, html_only, doc) = if mode < 5 {
                let html_only = ctx.rng.chance(2, 3);
                let rawb = ctx.rng.chance(1, 8);
                let mut v = gen::soup(&mut ctx.rng, 14, if html_only { SoupKind::HtmlOnly } else { SoupKind::Any }, rawb);
                if ctx.rng.chance(1, 4) {
                    // long attribute lists: "holds the whole tag" must be distinguishable from "holds the name"
                    v.extend_from_slice(b"<div aaaaaaaaaaaaaaaa=bbbbbbbbbbbbbbbbbbbb cccccccccccccccc='dddddddddddddddddddd' eeeeeeeeeeeeeeeeeeeeeeeee>tail text");
                    if !html_only {
                        gen::strip_foreign(&mut v);
                    }
                }
                {
                    let ho = html_only || !contains_foreign(&v);
                    (v, ho, None)
                }
            } else if mode < 8 {
                let d = structgen::gen_doc(&mut ctx.rng, &structgen::Opts { foreign: false, max_nodes: 10, ..Default::default() });
                (d.bytes.clone(), true, Some(d))
            } else {
                // foreign islands with ground truth: the name bound also holds inside svg / math (seeded C09-m5)
                let d = structgen::gen_doc(&mut ctx.rng, &structgen::Opts { foreign: true, max_nodes: 10, ..Default::default() });
                (d.bytes.clone(), false, Some(d))
            };
            let cuts: Vec<usize> = if input.len() <= 300 { (1..=input.len()).collect() } else { gen::random_cuts(&mut ctx.rng, input.len()) };
            ctx.eval();
            match check(&cfg, &input, &cuts, html_only, doc.as_ref()) {
                Ok(o) => {
                    ctx.evals(o.prefixes as u64);
                    ctx.add("prefixes_checked", o.prefixes as u64);
                    ctx.add("prefixes_with_pending", o.nonzero_pending as u64);
                    ctx.add("held_unfinished_tag_name", o.held_tag_names as u64);
                    ctx.add("must_be_zero_checked", o.must_be_zero_checked as u64);
                    ctx.add("single_token_bound_checked", o.single_token_checked as u64);
                    ctx.add("foreign_start_tag_name_bound_checked", o.foreign_name_bound_checked as u64);
                    let k = format!("max_lookahead_bytes_{}", o.max_lookahead);
                    if o.max_lookahead > 0 {
                        ctx.count(&k);
                    }
                    if o.prefixes > 0 {
                        let h = mix(fnv(&input), fnv(serde_json::to_string(&cfg).unwrap().as_bytes()));
                        for p in 0..o.prefixes {
                            ctx.nontrivial(mix(h, p as u64));
                        }
                        ctx.sample(|| Case::new(&cfg, &input, &cuts[..cuts.len().min(5)]).to_value());
                    }
                }
                Err((key, msg)) => {
                    if key == "harness" {
                        panic!("{msg}");
                    }
                    let (i2, c2) = if doc.is_none() {
                        let k2 = key.clone();
                        crate::core::shrink_input(&input, &cuts, &mut |i, c| matches!(check(&cfg, i, c, html_only, None), Err((k, _)) if k == k2))
                    } else {
                        (input.clone(), cuts.clone())
                    };
                    let msg = match check(&cfg, &i2, &c2, html_only, None) {
                        Err((_, m)) => m,
                        _ => msg,
                    };
                    let mut case = Case::new(&cfg, &i2, &c2);
                    case.note = format!("html_only={html_only}");
                    let key = refine_key(&key, &msg, &i2);
                    if !ctx.violation(Violation { key, msg, case: case.to_value() }) {
                        return;
                    }
                }
            }
        }
    }
    fn replay(&self, case: &Value) -> Result<Vec<Violation>, String> {
        let c: Case = serde_json::from_value(case.clone()).map_err(|e| e.to_string())?;
        let html_only = c.note.contains("html_only=true");
        match check(&c.cfg, &c.input(), &c.cuts, html_only, None) {
            Ok(_) => Ok(vec![]),
            Err((key, msg)) => Ok(vec![Violation { key, msg, case: case.clone() }]),
        }
    }
    fn watchdog_s(&self, tier: Tier) -> u64 {
        tier.pick(300, 2400)
    }
}

fn refine_key(key: &str, _msg: &str, _input: &[u8]) -> String {
    key.to_string()
}

pub fn contains_foreign(v: &[u8]) -> bool {
    let lower: Vec<u8> = v.iter().map(|b| b.to_ascii_lowercase()).collect();
    lower.windows(3).any(|w| w == b"svg") || lower.windows(4).any(|w| w == b"math")
}
