//! C06 Handler independence: what handlers in H observe does not depend on which other
//! observers O are registered (tag-scan mode vs full lexing mode).

use super::Case;
use crate::core::{show, Ctx, Prop, Tier, Violation};
use crate::engine::{self, Config, DocH, ElH, Res};
use crate::gen::{self, SoupKind};
use crate::norm;
use crate::rng::{fnv, mix, Rng};
use crate::{selgen, structgen};
use serde_derive::{Deserialize, Serialize};
use serde_json::Value;

pub struct C06;

#[derive(Clone, Debug, Serialize, Deserialize)]
pub struct Case6 {
    pub base: Case,
    /// the extra observers
    pub extra_el: Vec<ElH>,
    pub extra_doc: Vec<DocH>,
    /// register the extra element handlers before (true) or after (false) those of H
    pub extra_first: bool,
}

const SPARSE: &[&str] = &["*", "p", "div", "span", "script", "title", "svg", "math", "td", "[a]", "p > *", "div *", ":not(div)", "nosuchtag", "textarea", "select", "b", "li:nth-child(2)", "style", "template", "font", "mi", "desc", "option"];

const FOREIGN_SEL: &[&str] = &["svg", "math", "circle", "g", "path", "title", "desc", "foreignobject", "mi", "mtext", "annotation-xml", "svg *", "svg > *", "*", "a", "rect", "text", "use", "mrow"];

fn gen_extra(rng: &mut Rng) -> (Vec<ElH>, Vec<DocH>) {
    let mut el = vec![];
    let mut doc = vec![];
    match rng.below(8) {
        0 => doc.push(DocH { text: true, ..Default::default() }),
        1 => doc.push(DocH { comments: true, ..Default::default() }),
        2 => doc.push(DocH { doctype: true, ..Default::default() }),
        3 => el.push(ElH { selector: "*".into(), element: true, ..Default::default() }),
        4 => {
            doc.push(DocH { text: true, comments: true, doctype: true, end: true, ..Default::default() });
            el.push(ElH { selector: "*".into(), element: true, text: true, comments: true, end_tag: true, ..Default::default() });
        }
        5 => el.push(ElH { selector: (*rng.pick(SPARSE)).into(), element: true, end_tag: true, ..Default::default() }),
        _ => {
            for _ in 0..rng.range(1, 3) {
                el.push(ElH { selector: (*rng.pick(SPARSE)).into(), element: rng.bool(), text: rng.bool(), comments: rng.bool(), end_tag: rng.bool(), ..Default::default() });
            }
            for e in &mut el {
                if !(e.element || e.text || e.comments || e.end_tag) {
                    e.element = true;
                }
            }
        }
    }
    (el, doc)
}

pub fn combined(c: &Case6) -> (Config, Vec<Option<usize>>) {
    // returns the combined config and, for each hid of the combined config, the hid in H (or None)
    let h = &c.base.cfg;
    let mut cfg = h.clone();
    let mut map: Vec<Option<usize>> = vec![];
    cfg.el.clear();
    if c.extra_first {
        for e in &c.extra_el {
            cfg.el.push(e.clone());
            map.push(None);
        }
    }
    for (i, e) in h.el.iter().enumerate() {
        cfg.el.push(e.clone());
        map.push(Some(i));
    }
    if !c.extra_first {
        for e in &c.extra_el {
            cfg.el.push(e.clone());
            map.push(None);
        }
    }
    cfg.doc.clear();
    for (i, d) in h.doc.iter().enumerate() {
        cfg.doc.push(d.clone());
        map.push(Some(h.el.len() + i));
    }
    for d in &c.extra_doc {
        cfg.doc.push(d.clone());
        map.push(None);
    }
    (cfg, map)
}

pub struct Obs {
    pub switches_a: usize,
    pub switches_b: usize,
    pub h_events: usize,
}

pub fn check(c: &Case6) -> Result<Obs, (String, String)> {
    let input = c.base.input();
    let a = engine::run(&c.base.cfg, &input, &c.base.cuts).map_err(|e| ("harness".to_string(), e))?;
    let (cfg_b, map) = combined(c);
    let b = engine::run(&cfg_b, &input, &c.base.cuts).map_err(|e| ("harness".to_string(), e))?;
    for (r, n) in [(&a, "H"), (&b, "H+O")] {
        if let Res::Panic(m) = r.final_res() {
            return Err(("panic".into(), format!("panic in configuration {n}: {m}\n input: {}", show(&input))));
        }
    }
    if a.final_res() != b.final_res() {
        // Accepted artefact (DESIGN.md §6): the tag scanner consults the strict-mode guard as soon as a tag
        // NAME is complete, the lexer when the whole tag is. If the input ends inside that tag the two modes
        // differ in Ambiguity-vs-Ok although no start tag token exists. Recognised precisely: completing
        // the tag makes both configurations fail with ParsingAmbiguity.
        let amb = Res::Err(crate::engine::ErrKind::Ambiguity);
        if (a.final_res() == amb && b.final_res() == Res::Ok) || (b.final_res() == amb && a.final_res() == Res::Ok) {
            for suffix in [&b">"[..], b"\">", b"'>"] {
                let mut i2 = input.clone();
                i2.extend_from_slice(suffix);
                let a2 = engine::run(&c.base.cfg, &i2, &c.base.cuts).map_err(|e| ("harness".to_string(), e))?;
                let b2 = engine::run(&cfg_b, &i2, &c.base.cuts).map_err(|e| ("harness".to_string(), e))?;
                if a2.final_res() == amb && b2.final_res() == amb {
                    return Ok(Obs { switches_a: 0, switches_b: 0, h_events: 0 });
                }
            }
        }
        return Err(("result-differs".into(), format!("H gives {:?}, H+O gives {:?}\n input: {}", a.final_res(), b.final_res(), show(&input))));
    }
    let (ea, _) = norm::normalise(&a, &norm::all);
    let (eb, _) = norm::normalise(&b, &|h| map.get(h).copied().flatten());
    if ea != eb {
        return Err(("events-differ".into(), format!("events seen by H change when observers are added (A = H alone, B = H with O): {}\n input: {}", norm::first_diff(&ea, &eb), show(&input))));
    }
    if a.ok() && std::str::from_utf8(&input).is_err() {
        // malformed bytes captured by a text handler are legitimately normalised (C01's exception):
        // each run must then equal its own decode/encode expectation
        for (r, n) in [(&a, "H"), (&b, "H+O")] {
            let iv = crate::props::c01::captured_intervals(r);
            let exp = crate::props::c01::expected_output(&input, encoding_rs::UTF_8, &iv);
            if r.out() != exp {
                return Err(("output-differs".into(), format!("sink bytes of configuration {n} differ from the input (modulo normalisation of captured malformed text)\n input: {}\n out: {}", show(&input), show(&r.out()))));
            }
        }
    } else if a.ok() && a.out() != b.out() {
        return Err(("output-differs".into(), format!("sink bytes change when observers are added\n input: {}\n H:   {}\n H+O: {}", show(&input), show(&a.out()), show(&b.out()))));
    }
    Ok(Obs { switches_a: a.switches(), switches_b: b.switches(), h_events: ea.len() })
}

impl Prop for C06 {
    fn id(&self) -> &'static str {
        "C06"
    }
    fn rule(&self) -> String {
        "relational: same input (soup / structured documents with foreign islands / dense mis-nested documents) and schedule under handler set H (selector-scoped observers, sometimes plus document handlers; on a third of the structured documents H also rewrites: content removal, insertions, renaming) and under H ∪ O (O = document text/comments/doctype, '*', sparse selectors, everything), O registered before or after H; non-trivial when the two runs differ in the number of scanner<->lexer switches (hook events) and H logged at least one event; distinct = hash(input, schedule, H, O)".into()
    }
    fn run_shard(&self, ctx: &mut Ctx<'_>) {
        let n = ctx.budget(600_000, 36_000_000);
        for i in 0..n {
            if i % 64 == 0 && ctx.should_stop() {
                break;
            }
            let mut cfg = Config { strict: ctx.rng.chance(1, 4), esi: ctx.rng.chance(1, 10), ..Default::default() };
            // H: selector scoped observers
            for _ in 0..ctx.rng.range(1, 3) {
                let mut e = ElH { selector: (*ctx.rng.pick(gen::OBS_SELECTORS)).to_string(), element: ctx.rng.chance(3, 4), text: ctx.rng.chance(1, 3), comments: ctx.rng.chance(1, 4), end_tag: ctx.rng.chance(1, 3), ..Default::default() };
                if !(e.element || e.text || e.comments || e.end_tag) {
                    e.element = true;
                }
                cfg.el.push(e);
            }
            if ctx.rng.chance(1, 5) {
                cfg.doc.push(DocH { doctype: ctx.rng.bool(), comments: ctx.rng.bool(), text: false, end: true, ..Default::default() });
            }
            // input: soup (1/2), structured documents with foreign islands (1/4), dense mis-nested documents over four names (1/4)
            let mode = ctx.rng.below(4);
            const DENSE_NAMES: &[&str] = &["div", "span", "p", "b"];
            let mut input = match mode {
                0 | 1 => {
                    let rawb = ctx.rng.chance(1, 8);
                    let mut input = gen::soup(&mut ctx.rng, 30, SoupKind::Any, rawb);
                    if ctx.rng.chance(1, 12) {
                        gen::mutate(&mut ctx.rng, &mut input);
                    }
                    input
                }
                2 => {
                    ctx.count("structured_foreign_documents");
                    structgen::gen_doc(&mut ctx.rng, &structgen::Opts { foreign: true, max_nodes: 18, esi: cfg.esi, ..Default::default() }).bytes
                }
                _ => {
                    ctx.count("dense_documents");
                    let o = structgen::Opts { foreign: ctx.rng.chance(1, 4), max_nodes: 30, max_depth: 8, esi: false, nonascii: false, plaintext: false, weird_attrs: false, names: Some(DENSE_NAMES), close_percent: *ctx.rng.pick(&[30usize, 50, 70]), ..Default::default() };
                    structgen::gen_doc(&mut ctx.rng, &o).bytes
                }
            };
            if mode >= 2 {
                // H from the selector generator (C04's grammar): interplay of compiled selector programs, end-tag handlers in
                // scan mode inside foreign content (both added after seeded changes were caught only by other checks)
                cfg.el.clear();
                for _ in 0..ctx.rng.range(1, 3) {
                    let sel = if mode == 3 && !ctx.rng.chance(1, 4) { selgen::gen_structural(&mut ctx.rng, DENSE_NAMES).css() } else if ctx.rng.bool() { selgen::gen_list(&mut ctx.rng).css() } else { (*ctx.rng.pick(FOREIGN_SEL)).to_string() };
                    let mut e = ElH { selector: sel, element: ctx.rng.chance(3, 4), text: ctx.rng.chance(1, 3), comments: ctx.rng.chance(1, 4), end_tag: ctx.rng.chance(1, 2), ..Default::default() };
                    if !(e.element || e.text || e.comments || e.end_tag) {
                        e.element = true;
                    }
                    cfg.el.push(e);
                }
            }
            let mut mutating_h = false;
            if mode >= 2 && ctx.rng.chance(1, 3) {
                mutating_h = true;
                // H itself may rewrite (the statement only requires the OTHER handlers to be non-mutating): content removal,
                // renaming and insertions by H must come out the same whether the rest of the document is scanned or lexed
                ctx.count("cases_with_mutating_H");
                for e in cfg.el.iter_mut() {
                    if e.element && ctx.rng.chance(2, 3) {
                        for _ in 0..ctx.rng.range(1, 2) {
                            e.always_el.push(match ctx.rng.below(4) {
                                0 => crate::engine::Op::SetInner(crate::mutgen::content(&mut ctx.rng)),
                                1 => crate::engine::Op::Remove,
                                _ => crate::mutgen::el_op(&mut ctx.rng),
                            });
                        }
                    }
                }
            }
            let cuts = gen::random_cuts(&mut ctx.rng, input.len());
            let (mut extra_el, extra_doc) = gen_extra(&mut ctx.rng);
            if mode >= 2 && ctx.rng.bool() {
                for _ in 0..ctx.rng.range(1, 3) {
                    let sel = if mode == 3 { selgen::gen_structural(&mut ctx.rng, DENSE_NAMES).css() } else { selgen::gen_list(&mut ctx.rng).css() };
                    extra_el.push(ElH { selector: sel, element: true, ..Default::default() });
                }
            }
            if input.is_empty() {
                input.push(b'x');
            }
            let c = Case6 { base: Case::new(&cfg, &input, &cuts), extra_el, extra_doc, extra_first: ctx.rng.chance(1, 3) && !mutating_h };
            // (inserted content carries the index of the inserting handler, so with a rewriting H the observers are registered after H)
            ctx.eval();
            match check(&c) {
                Ok(o) => {
                    ctx.add("switches_under_H", o.switches_a as u64);
                    ctx.add("switches_under_H+O", o.switches_b as u64);
                    if o.switches_a != o.switches_b && o.h_events > 0 {
                        ctx.nontrivial(mix(fnv(&input), fnv(serde_json::to_string(&c).unwrap().as_bytes())));
                        ctx.sample(|| serde_json::to_value(&c).unwrap());
                    }
                    if o.h_events > 0 {
                        ctx.count("cases_where_H_saw_events");
                    }
                }
                Err((key, msg)) => {
                    if key == "harness" {
                        panic!("{msg}");
                    }
                    // shrink the input
                    let k2 = key.clone();
                    let (i2, c2) = crate::core::shrink_input(&input, &cuts, &mut |i, cu| {
                        let mut cc = c.clone();
                        cc.base = Case::new(&cfg, i, cu);
                        matches!(check(&cc), Err((k, _)) if k == k2)
                    });
                    let mut cc = c.clone();
                    cc.base = Case::new(&cfg, &i2, &c2);
                    let msg = match check(&cc) {
                        Err((_, m)) => m,
                        _ => msg,
                    };
                    if !ctx.violation(Violation { key, msg, case: serde_json::to_value(&cc).unwrap() }) {
                        return;
                    }
                }
            }
        }
    }
    fn replay(&self, case: &Value) -> Result<Vec<Violation>, String> {
        let c: Case6 = serde_json::from_value(case.clone()).map_err(|e| e.to_string())?;
        match check(&c) {
            Ok(_) => Ok(vec![]),
            Err((key, msg)) => Ok(vec![Violation { key, msg, case: case.clone() }]),
        }
    }
    fn watchdog_s(&self, tier: Tier) -> u64 {
        tier.pick(300, 2400)
    }
}
