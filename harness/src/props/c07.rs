//! C07 Rewrite operations produce exactly the documented edit of the token stream (RefEditor).

use super::c04::{describe, undescribe, DocDesc};
use crate::core::{hex, show, unhex, Ctx, Prop, Tier, Violation};
use crate::engine::{self, Config, Content, DocH, ElH, Op, Res, ScriptEntry, Sub};
use crate::gen;
use crate::refattr;
use crate::reftree::{self, Tree};
use crate::rng::{fnv, mix, Rng};
use crate::selgen::{self, SelList};
use crate::structgen::{self, Doc, Kind};
use serde_derive::{Deserialize, Serialize};
use serde_json::Value;
use std::collections::HashMap;

pub struct C07;

#[derive(Clone, Debug, Serialize, Deserialize)]
pub struct H7 {
    pub sel: SelList,
    pub element: bool,
    pub text: bool,
    pub comments: bool,
}

#[derive(Clone, Debug, Serialize, Deserialize)]
pub struct Case7 {
    pub encoding: String,
    pub hs: Vec<H7>,
    /// one document handler (doctype, comments, text, end)
    pub doch: Option<(bool, bool, bool, bool)>,
    pub script: Vec<ScriptEntry>,
    pub doc_hex: String,
    pub doc: DocDesc,
    pub cuts: Vec<usize>,
}

fn config(c: &Case7) -> Config {
    Config {
        encoding: c.encoding.clone(),
        el: c.hs.iter().map(|h| ElH { selector: h.sel.css(), element: h.element, text: h.text, comments: h.comments, ..Default::default() }).collect(),
        doc: c.doch.iter().map(|&(doctype, comments, text, end)| DocH { doctype, comments, text, end, ..Default::default() }).collect(),
        script: c.script.clone(),
        ..Default::default()
    }
}

// ------------------------------------------------------------------------------------------
// the reference editor
// ------------------------------------------------------------------------------------------

#[derive(Clone, Debug, Default)]
struct Edit {
    before: Vec<Vec<u8>>,
    after: Vec<Vec<u8>>, // index 0 is emitted first (push_front for `after`)
    replacement: Option<Vec<u8>>,
    removed: bool,
}

#[derive(Clone, Debug, Default)]
struct TagEdit {
    /// new name (as given)
    name: Option<String>,
    /// attribute model after the edits: (lowercased name, Some(new value) | None = untouched original at index)
    attrs_touched: bool,
    attrs: Vec<(String, AttrVal)>,
    clear_self_closing: bool,
}

#[derive(Clone, Debug)]
enum AttrVal {
    /// untouched: index of the original attribute
    Orig(usize),
    Set(String),
}

#[derive(Clone, Debug)]
enum Seg {
    Lit(Vec<u8>),
    /// a re-serialised tag: (is end tag, expected name, expected attrs, expected self-closing, original tag bytes)
    Tag { end: bool, name: String, attrs: Vec<(String, AttrVal)>, self_closing: bool, orig: Vec<u8> },
}

fn escape_text(s: &str) -> String {
    s.replace('&', "&amp;").replace('<', "&lt;").replace('>', "&gt;")
}

fn enc_content(c: &Content, hid: usize, sub: Sub, off: usize, enc: &'static encoding_rs::Encoding) -> Vec<u8> {
    let tag = match sub {
        Sub::El => 'e',
        Sub::Text => 't',
        Sub::Comment => 'c',
        Sub::Doctype => 'd',
        Sub::End => 'z',
    };
    let s = c.s.replace("@@", &format!("{hid}{tag}{off}"));
    let s = if c.html { s } else { escape_text(&s) };
    enc.encode(&s).0.into_owned()
}

fn apply_token_op(e: &mut Edit, op: &Op, hid: usize, sub: Sub, off: usize, enc: &'static encoding_rs::Encoding) -> bool {
    match op {
        Op::Before(c) => e.before.push(enc_content(c, hid, sub, off, enc)),
        Op::After(c) => e.after.insert(0, enc_content(c, hid, sub, off, enc)),
        Op::Replace(c) => {
            e.removed = true;
            e.replacement = Some(enc_content(c, hid, sub, off, enc));
        }
        Op::Remove => e.removed = true,
        _ => return false,
    }
    true
}

struct ElemState {
    s: Edit,
    x: Option<Edit>,
    tag: TagEdit,
    end_name: Option<String>,
    remove_content: bool,
    end_handlers: Vec<(usize, Vec<Op>)>,
}

pub struct Expected {
    segs: Vec<Seg>,
    pub ops_applied: usize,
    pub multi_op_tokens: usize,
    pub nested_matched: bool,
    pub special_element_ops: usize,
}

fn valid_attr_name(k: &str, enc: &'static encoding_rs::Encoding) -> bool {
    let lk = k.to_ascii_lowercase();
    !lk.is_empty() && !lk.bytes().any(|b| matches!(b, b' ' | b'\n' | b'\r' | b'\t' | b'\x0c' | b'/' | b'>' | b'=')) && !enc.encode(&lk).2
}

fn valid_tag_name(k: &str, enc: &'static encoding_rs::Encoding) -> bool {
    k.as_bytes().first().map_or(false, |b| b.is_ascii_alphabetic()) && !k.bytes().any(|b| matches!(b, b' ' | b'\n' | b'\r' | b'\t' | b'\x0c' | b'/' | b'>')) && !enc.encode(k).2
}

/// `f5_model`: bug model of the known finding - end-side edits of an element closed by an ancestor's end tag are
/// applied to that ancestor's end tag (handlers run innermost first, each overwriting the tag's mutations)
pub fn expected(c: &Case7, doc: &Doc, tree: &Tree, f5_model: bool) -> Expected {
    let enc = encoding_rs::Encoding::for_label(c.encoding.as_bytes()).unwrap();
    let nel = c.hs.len();
    let script: HashMap<(usize, Sub, usize), &Vec<Op>> = c.script.iter().map(|e| ((e.hid, e.sub, e.offset), &e.ops)).collect();
    let matched: Vec<Vec<bool>> = tree.nodes.iter().enumerate().map(|(ni, _)| c.hs.iter().map(|h| selgen::list_matches(tree, ni, &h.sel, false, encoding_rs::UTF_8)).collect()).collect();
    let node_of_tok: HashMap<usize, usize> = tree.nodes.iter().enumerate().map(|(i, n)| (n.tok, i)).collect();
    let mut elem: HashMap<usize, ElemState> = HashMap::new();
    let mut tok_edit: Vec<Edit> = vec![Edit::default(); doc.toks.len()];
    let mut tok_tag: HashMap<usize, Seg> = HashMap::new();
    let mut suppressed_until: Option<Option<usize>> = None; // Some(Some(tok)) = until that end tag token; Some(None) = until EOF
    let mut suppressed = vec![false; doc.toks.len()];
    let mut stats = (0usize, 0usize, false, 0usize);
    let mut end_appends: Vec<Vec<u8>> = vec![];

    for (ti, tok) in doc.toks.iter().enumerate() {
        // suppression window
        let mut is_supp = false;
        if let Some(until) = suppressed_until {
            if until == Some(ti) {
                suppressed_until = None; // the closing end tag itself is emitted (with its own edits)
            } else {
                is_supp = true;
            }
        }
        suppressed[ti] = is_supp;
        let open = &tree.open_before[ti];
        let active = |i: usize| open.iter().any(|&n| matched[n][i]);
        match &tok.kind {
            Kind::Start { .. } => {
                let ni = node_of_tok[&ti];
                let n = &tree.nodes[ni];
                let bytes = &doc.bytes[tok.start..tok.end];
                let p = refattr::parse_tag(bytes).expect("truth");
                let mut st = ElemState { s: Edit::default(), x: None, tag: TagEdit::default(), end_name: None, remove_content: false, end_handlers: vec![] };
                st.tag.attrs = p.attrs.iter().enumerate().map(|(i, a)| (String::from_utf8_lossy(&bytes[a.name.0..a.name.1]).to_ascii_lowercase(), AttrVal::Orig(i))).collect();
                let can = !n.no_content;
                let mut nops = 0;
                if open.iter().any(|&o| matched[o].iter().any(|m| *m)) && matched[ni].iter().any(|m| *m) {
                    stats.2 = true;
                }
                for (i, h) in c.hs.iter().enumerate() {
                    if !(matched[ni][i] && h.element) {
                        continue;
                    }
                    let Some(ops) = script.get(&(i, Sub::El, tok.start)) else { continue };
                    for op in ops.iter() {
                        nops += 1;
                        match op {
                            Op::Before(_) | Op::StBefore(_) => {
                                let cc = match op {
                                    Op::Before(c) | Op::StBefore(c) => c,
                                    _ => unreachable!(),
                                };
                                st.s.before.push(enc_content(cc, i, Sub::El, tok.start, enc));
                            }
                            Op::After(cc) => {
                                let v = enc_content(cc, i, Sub::El, tok.start, enc);
                                if can {
                                    st.x.get_or_insert_with(Edit::default).after.insert(0, v);
                                } else {
                                    st.s.after.insert(0, v);
                                }
                            }
                            Op::Prepend(cc) => {
                                if can {
                                    st.tag.clear_self_closing = true;
                                    st.s.after.insert(0, enc_content(cc, i, Sub::El, tok.start, enc));
                                }
                            }
                            Op::StAfter(cc) => st.s.after.insert(0, enc_content(cc, i, Sub::El, tok.start, enc)),
                            Op::Append(cc) => {
                                if can {
                                    st.tag.clear_self_closing = true;
                                    st.x.get_or_insert_with(Edit::default).before.push(enc_content(cc, i, Sub::El, tok.start, enc));
                                }
                            }
                            Op::SetInner(cc) => {
                                if can {
                                    st.tag.clear_self_closing = true;
                                    st.s.after.clear();
                                    if let Some(x) = st.x.as_mut() {
                                        x.before.clear();
                                    }
                                    st.remove_content = true;
                                    st.s.after.insert(0, enc_content(cc, i, Sub::El, tok.start, enc));
                                }
                            }
                            Op::Replace(cc) | Op::StReplace(cc) => {
                                st.s.removed = true;
                                st.s.replacement = Some(enc_content(cc, i, Sub::El, tok.start, enc));
                                if matches!(op, Op::Replace(_)) && can {
                                    st.s.after.clear();
                                    if let Some(x) = st.x.as_mut() {
                                        x.before.clear();
                                    }
                                    st.remove_content = true;
                                    st.x.get_or_insert_with(Edit::default).removed = true;
                                }
                            }
                            Op::Remove => {
                                st.s.removed = true;
                                if can {
                                    st.s.after.clear();
                                    if let Some(x) = st.x.as_mut() {
                                        x.before.clear();
                                    }
                                    st.remove_content = true;
                                    st.x.get_or_insert_with(Edit::default).removed = true;
                                }
                            }
                            Op::StRemove => st.s.removed = true,
                            Op::RemoveKeep => {
                                st.s.removed = true;
                                if can {
                                    st.x.get_or_insert_with(Edit::default).removed = true;
                                }
                            }
                            Op::SetAttr(k, v) => {
                                if valid_attr_name(k, enc) {
                                    st.tag.attrs_touched = true;
                                    let lk = k.to_ascii_lowercase();
                                    if let Some(slot) = st.tag.attrs.iter_mut().find(|(nm, _)| *nm == lk) {
                                        slot.1 = AttrVal::Set(v.clone());
                                    } else {
                                        st.tag.attrs.push((lk, AttrVal::Set(v.clone())));
                                    }
                                }
                            }
                            Op::RemoveAttr(k) => {
                                let lk = k.to_ascii_lowercase();
                                if valid_attr_name(k, enc) {
                                    let before = st.tag.attrs.len();
                                    st.tag.attrs.retain(|(nm, _)| *nm != lk);
                                    // removing an attribute that is not there leaves the tag untouched (raw bytes are kept)
                                    if st.tag.attrs.len() != before {
                                        st.tag.attrs_touched = true;
                                    }
                                }
                            }
                            Op::SetTagName(k) => {
                                if valid_tag_name(k, enc) {
                                    st.tag.name = Some(k.clone());
                                    if can {
                                        st.end_name = Some(k.clone());
                                    }
                                }
                            }
                            Op::OnEndTag(inner) => {
                                if can {
                                    st.end_handlers.push((i, inner.clone()));
                                }
                            }
                            Op::ClearEndTagHandlers => st.end_handlers.clear(),
                            Op::SetText(_) => {}
                        }
                    }
                }
                stats.0 += nops;
                if nops >= 2 {
                    stats.1 += 1;
                }
                if nops > 0 && (n.no_content || !n.own_end_tag) {
                    stats.3 += 1;
                }
                tok_edit[ti] = st.s.clone();
                if st.tag.name.is_some() || st.tag.attrs_touched {
                    tok_tag.insert(
                        ti,
                        Seg::Tag { end: false, name: st.tag.name.clone().unwrap_or_else(|| String::from_utf8_lossy(&bytes[p.name.0..p.name.1]).into_owned()), attrs: st.tag.attrs.clone(), self_closing: p.self_closing && !st.tag.clear_self_closing, orig: bytes.to_vec() },
                    );
                }
                if st.remove_content && !is_supp && suppressed_until.is_none() {
                    suppressed_until = Some(n.closed_by);
                }
                elem.insert(ni, st);
            }
            Kind::End { .. } => {
                // elements closed by this end tag; only the element whose OWN end tag this is carries end-side edits
                // (the generator gives append/after/on_end_tag to such elements only); end-tag handlers run innermost
                // element first
                let mut closed: Vec<usize> = tree.nodes.iter().enumerate().filter(|(_, n)| n.closed_by == Some(ti)).map(|(ni, _)| ni).collect();
                closed.sort_by(|a, b| b.cmp(a));
                let mut e = Edit::default();
                let mut name: Option<String> = None;
                let mut touched = false;
                for ni in closed {
                    let n = &tree.nodes[ni];
                    let Some(st) = elem.get(&ni) else { continue };
                    if !n.own_end_tag && !f5_model {
                        continue;
                    }
                    if let Some(x) = &st.x {
                        e = x.clone();
                        touched = true;
                    }
                    if let Some(nm) = &st.end_name {
                        name = Some(nm.clone());
                    }
                    for (i, ops) in &st.end_handlers {
                        touched = true;
                        for op in ops {
                            if apply_token_op(&mut e, op, *i, Sub::End, n.start, enc) {
                                continue;
                            }
                            if let Op::SetTagName(k) = op {
                                name = Some(k.clone());
                            }
                        }
                    }
                }
                if touched {
                    tok_edit[ti] = e;
                }
                if let Some(nm) = name {
                    tok_tag.insert(ti, Seg::Tag { end: true, name: nm, attrs: vec![], self_closing: false, orig: doc.bytes[tok.start..tok.end].to_vec() });
                }
            }
            Kind::Text { .. } | Kind::Comment { .. } => {
                let sub = if matches!(tok.kind, Kind::Text { .. }) { Sub::Text } else { Sub::Comment };
                let mut e = Edit::default();
                let mut nops = 0;
                let mut new_text: Option<String> = None;
                for (i, h) in c.hs.iter().enumerate() {
                    let on = if sub == Sub::Text { h.text } else { h.comments };
                    if on && active(i) {
                        if let Some(ops) = script.get(&(i, sub, tok.start)) {
                            for op in ops.iter() {
                                nops += 1;
                                if !apply_token_op(&mut e, op, i, sub, tok.start, enc) {
                                    if let (Op::SetText(t), Sub::Comment) = (op, sub) {
                                        if !t.contains("-->") && !t.contains("--!>") && !t.starts_with('>') && !t.starts_with("->") && !enc.encode(t).2 {
                                            new_text = Some(t.clone());
                                        }
                                    }
                                }
                            }
                        }
                    }
                }
                if let Some((_, comments, text, _)) = c.doch {
                    let on = if sub == Sub::Text { text } else { comments };
                    if on {
                        if let Some(ops) = script.get(&(nel, sub, tok.start)) {
                            for op in ops.iter() {
                                nops += 1;
                                if !apply_token_op(&mut e, op, nel, sub, tok.start, enc) {
                                    if let (Op::SetText(t), Sub::Comment) = (op, sub) {
                                        if !t.contains("-->") && !t.contains("--!>") && !t.starts_with('>') && !t.starts_with("->") && !enc.encode(t).2 {
                                            new_text = Some(t.clone());
                                        }
                                    }
                                }
                            }
                        }
                    }
                }
                stats.0 += nops;
                if nops >= 2 {
                    stats.1 += 1;
                }
                if let Some(t) = new_text {
                    if !e.removed {
                        let mut v = b"<!--".to_vec();
                        v.extend_from_slice(&enc.encode(&t).0);
                        v.extend_from_slice(b"-->");
                        tok_tag.insert(ti, Seg::Lit(v));
                    }
                }
                tok_edit[ti] = e;
            }
            Kind::Doctype { .. } => {
                if let Some((true, _, _, _)) = c.doch {
                    if let Some(ops) = script.get(&(nel, Sub::Doctype, tok.start)) {
                        if ops.iter().any(|o| matches!(o, Op::Remove)) {
                            tok_edit[ti].removed = true;
                            stats.0 += 1;
                        }
                    }
                }
            }
            Kind::CdataMarker => {}
        }
    }
    if let Some((_, _, _, true)) = c.doch {
        if let Some(ops) = script.get(&(nel, Sub::End, 0)) {
            for op in ops.iter() {
                if let Op::Append(cc) = op {
                    end_appends.push(enc_content(cc, nel, Sub::End, 0, enc));
                    stats.0 += 1;
                }
            }
        }
    }
    // assemble
    let mut segs: Vec<Seg> = vec![];
    let mut lit = |segs: &mut Vec<Seg>, b: &[u8]| {
        if b.is_empty() {
            return;
        }
        if let Some(Seg::Lit(v)) = segs.last_mut() {
            v.extend_from_slice(b);
        } else {
            segs.push(Seg::Lit(b.to_vec()));
        }
    };
    for (ti, tok) in doc.toks.iter().enumerate() {
        if suppressed[ti] {
            continue;
        }
        let e = &tok_edit[ti];
        for b in &e.before {
            lit(&mut segs, b);
        }
        if e.removed {
            if let Some(r) = &e.replacement {
                lit(&mut segs, r);
            }
        } else if let Some(t) = tok_tag.get(&ti) {
            match t {
                Seg::Lit(v) => lit(&mut segs, v),
                other => segs.push(other.clone()),
            }
        } else {
            lit(&mut segs, &doc.bytes[tok.start..tok.end]);
        }
        for a in &e.after {
            lit(&mut segs, a);
        }
    }
    for a in &end_appends {
        lit(&mut segs, a);
    }
    Expected { segs, ops_applied: stats.0, multi_op_tokens: stats.1, nested_matched: stats.2, special_element_ops: stats.3 }
}

/// compares the output with the expected segments; modified tags are compared semantically
fn compare(exp: &Expected, out: &[u8], enc: &'static encoding_rs::Encoding) -> Result<(), String> {
    let mut pos = 0usize;
    for seg in &exp.segs {
        match seg {
            Seg::Lit(v) => {
                if !out[pos.min(out.len())..].starts_with(v) {
                    let rest = &out[pos.min(out.len())..];
                    let k = rest.iter().zip(v.iter()).position(|(a, b)| a != b).unwrap_or(rest.len().min(v.len()));
                    return Err(format!("at output byte {}: expected …{} but the output has …{}", pos + k, show(&v[k.saturating_sub(30)..(k + 40).min(v.len())]), show(&rest[k.saturating_sub(30)..(k + 40).min(rest.len())])));
                }
                pos += v.len();
            }
            Seg::Tag { end, name, attrs, self_closing, orig } => {
                let rest = &out[pos.min(out.len())..];
                let Some(p) = refattr::parse_tag(rest) else {
                    return Err(format!("at output byte {pos}: expected a re-serialised tag <{}{name} …> but found {}", if *end { "/" } else { "" }, show(&rest[..rest.len().min(40)])));
                };
                let got_name = &rest[p.name.0..p.name.1];
                if p.is_end != *end || got_name != &*enc.encode(name).0 {
                    return Err(format!("at output byte {pos}: re-serialised tag has name {} (end tag: {}), expected {name}", show(got_name), p.is_end));
                }
                if !*end {
                    let po = refattr::parse_tag(orig).expect("truth");
                    if p.attrs.len() != attrs.len() {
                        return Err(format!("at output byte {pos}: re-serialised tag {} has {} attributes, expected {}", show(&rest[..p.end]), p.attrs.len(), attrs.len()));
                    }
                    for (ga, (en, ev)) in p.attrs.iter().zip(attrs.iter()) {
                        let gname = &rest[ga.name.0..ga.name.1];
                        let gval = &rest[ga.value.0..ga.value.1];
                        match ev {
                            AttrVal::Orig(i) => {
                                let oa = &po.attrs[*i];
                                if gname != &orig[oa.name.0..oa.name.1] || gval != &orig[oa.value.0..oa.value.1] {
                                    return Err(format!("at output byte {pos}: untouched attribute {} = {} changed to {} = {} in {}", show(&orig[oa.name.0..oa.name.1]), show(&orig[oa.value.0..oa.value.1]), show(gname), show(gval), show(&rest[..p.end])));
                                }
                            }
                            AttrVal::Set(v) => {
                                let ev = enc.encode(&v.replace('"', "&quot;")).0.into_owned();
                                // an existing attribute keeps its spelling, a new one is written lowercased
                                if !gname.eq_ignore_ascii_case(&enc.encode(en).0) || gval != &ev[..] {
                                    return Err(format!("at output byte {pos}: attribute set to {en}={v:?} is serialised as {} = {} in {}", show(gname), show(gval), show(&rest[..p.end])));
                                }
                            }
                        }
                    }
                    if p.self_closing != *self_closing {
                        return Err(format!("at output byte {pos}: self-closing flag of the re-serialised tag is {}, expected {} in {}", p.self_closing, self_closing, show(&rest[..p.end])));
                    }
                } else if !p.attrs.is_empty() {
                    return Err(format!("at output byte {pos}: renamed end tag has attributes: {}", show(&rest[..p.end])));
                }
                pos += p.end;
            }
        }
    }
    if pos != out.len() {
        return Err(format!("output has {} extra bytes at the end: {}", out.len() - pos, show(&out[pos..])));
    }
    Ok(())
}

pub struct Obs {
    pub ops: usize,
    pub nontrivial: bool,
    pub special: usize,
}

pub fn check(c: &Case7, doc: &Doc) -> Result<Obs, (String, String)> {
    let cfg = config(c);
    let enc = cfg.enc();
    let r = engine::run(&cfg, &doc.bytes, &c.cuts).map_err(|e| ("selector-rejected".to_string(), e))?;
    if r.final_res() != Res::Ok {
        return Err(("unexpected-result".into(), format!("{:?}\n doc: {}", r.final_res(), show(&doc.bytes))));
    }
    let tree = reftree::build(doc);
    let exp = expected(c, doc, &tree, false);
    let out = r.out();
    if let Err(m) = compare(&exp, &out, enc) {
        // bug model of the known finding: the output is exactly what the reference editor gives when end-side edits
        // of implicitly closed elements land on the ancestor's end tag
        let key = if classify(c, doc, &tree) && compare(&expected(c, doc, &tree, true), &out, enc).is_ok() { "end-side-edit-applied-to-ancestors-end-tag".to_string() } else { "edit-differs".to_string() };
        return Err((
            key,
            format!(
                "output differs from the reference editor: {m}\n handlers: {:?} doc handler: {:?}\n script: {}\n cuts: {:?} encoding: {}\n doc:    {}\n output: {}",
                c.hs.iter().map(|h| format!("{} el={} text={} comments={}", h.sel.css(), h.element, h.text, h.comments)).collect::<Vec<_>>(),
                c.doch,
                serde_json::to_string(&c.script).unwrap(),
                c.cuts,
                c.encoding,
                show(&doc.bytes),
                show(&out)
            ),
        ));
    }
    Ok(Obs { ops: exp.ops_applied, nontrivial: exp.multi_op_tokens > 0 || exp.nested_matched || exp.special_element_ops > 0, special: exp.special_element_ops })
}

/// key of a violation: end-side edits of an element closed by an ancestor's end tag form their own class
fn classify(c: &Case7, _doc: &Doc, tree: &Tree) -> bool {
    let implicit_end_side = c.script.iter().any(|e| {
        e.sub == Sub::El
            && tree.node_at(e.offset).map_or(false, |ni| {
                let n = &tree.nodes[ni];
                !n.no_content && !n.own_end_tag && n.closed_by.is_some() && e.ops.iter().any(|o| matches!(o, Op::Remove | Op::Replace(_) | Op::RemoveKeep | Op::SetTagName(_)))
            })
    });
    implicit_end_side
}

// ------------------------------------------------------------------------------------------
// generation
// ------------------------------------------------------------------------------------------

fn content(rng: &mut Rng) -> Content {
    crate::mutgen::content(rng)
}

fn gen_script(rng: &mut Rng, c: &mut Case7, doc: &Doc, tree: &Tree, allow_implicit_special: bool) {
    let nel = c.hs.len();
    let matched: Vec<Vec<bool>> = tree.nodes.iter().enumerate().map(|(ni, _)| c.hs.iter().map(|h| selgen::list_matches(tree, ni, &h.sel, false, encoding_rs::UTF_8)).collect()).collect();
    let mut content_removed_on: Vec<usize> = vec![];
    for (ni, n) in tree.nodes.iter().enumerate() {
        for (i, h) in c.hs.iter().enumerate() {
            if !(h.element && matched[ni][i]) || !rng.chance(1, 2) {
                continue;
            }
            let k = rng.range(1, 3);
            let mut ops: Vec<Op> = vec![];
            let end_side_ok = n.no_content || n.own_end_tag;
            let mut structural_done = false; // remove / replace / set_inner: at most one per element and nothing content-related after it
            for _ in 0..k {
                let op = match rng.below(16) {
                    0 | 1 => Op::Before(content(rng)),
                    2 => Op::StBefore(content(rng)),
                    3 => Op::StAfter(content(rng)),
                    4 => Op::SetAttr((*rng.pick(&["a", "A", "class", "id", "data-new", "title", "bad name", ""])).to_string(), format!("v{}{}", rng.below(10), rng.pick(&["", "\"", "&", "<", " ", "é"]))),
                    5 => Op::RemoveAttr((*rng.pick(&["a", "class", "id", "ID", "title", "b", "lang", "nope"])).to_string()),
                    6 if end_side_ok => Op::After(content(rng)),
                    7 if end_side_ok && !structural_done => Op::Prepend(content(rng)),
                    8 if end_side_ok && !structural_done => Op::Append(content(rng)),
                    9 if end_side_ok && !structural_done => {
                        structural_done = true;
                        Op::SetInner(content(rng))
                    }
                    10 if (end_side_ok || allow_implicit_special) && !structural_done => {
                        structural_done = true;
                        Op::Replace(content(rng))
                    }
                    11 if (end_side_ok || allow_implicit_special) && !structural_done => {
                        structural_done = true;
                        Op::Remove
                    }
                    12 if (end_side_ok || allow_implicit_special) && !structural_done => {
                        structural_done = true;
                        Op::RemoveKeep
                    }
                    13 if end_side_ok || allow_implicit_special => Op::SetTagName((*rng.pick(&["q", "Q", "x-y", "ab1", "", "1a", "a b"])).to_string()),
                    15 if rng.chance(1, 3) => Op::ClearEndTagHandlers,
                    14 if end_side_ok && !n.no_content => Op::OnEndTag((0..rng.range(0, 2)).map(|_| crate::mutgen::end_tag_op(rng)).collect()),
                    _ => Op::Before(content(rng)),
                };
                // only one of remove/replace per token; no Replace/Remove after each other (undocumented)
                if matches!(op, Op::Replace(_) | Op::Remove | Op::RemoveKeep | Op::SetInner(_)) && ops.iter().any(|o| matches!(o, Op::Replace(_) | Op::Remove | Op::RemoveKeep | Op::SetInner(_) | Op::StReplace(_) | Op::StRemove)) {
                    continue;
                }
                if matches!(op, Op::Replace(_) | Op::Remove | Op::SetInner(_)) {
                    content_removed_on.push(ni);
                }
                ops.push(op);
            }
            // an OnEndTag handler must not Replace after Remove etc.: keep inner ops to one of Replace/Remove
            for op in ops.iter_mut() {
                if let Op::OnEndTag(inner) = op {
                    let mut seen = false;
                    inner.retain(|o| {
                        if matches!(o, Op::Replace(_) | Op::Remove) {
                            if seen {
                                return false;
                            }
                            seen = true;
                        }
                        true
                    });
                }
            }
            if !ops.is_empty() {
                c.script.push(ScriptEntry { hid: i, sub: Sub::El, offset: n.start, ops });
            }
        }
    }
    // structural ops from two handlers on one element are undocumented in combination: keep the first entry's
    // structural op only
    let mut seen_structural: std::collections::HashSet<usize> = Default::default();
    for e in c.script.iter_mut() {
        if e.sub != Sub::El {
            continue;
        }
        let had = seen_structural.contains(&e.offset);
        let mut mine = false;
        e.ops.retain(|o| {
            let s = matches!(o, Op::Replace(_) | Op::Remove | Op::RemoveKeep | Op::SetInner(_) | Op::StReplace(_) | Op::StRemove | Op::Prepend(_) | Op::Append(_));
            if s && had {
                return false;
            }
            if matches!(o, Op::Replace(_) | Op::Remove | Op::RemoveKeep | Op::SetInner(_) | Op::StReplace(_) | Op::StRemove) {
                mine = true;
            }
            true
        });
        if mine {
            seen_structural.insert(e.offset);
        }
    }
    // text / comment / doctype / end
    for tok in &doc.toks {
        match &tok.kind {
            Kind::Text { .. } | Kind::Comment { .. } => {
                let sub = if matches!(tok.kind, Kind::Text { .. }) { Sub::Text } else { Sub::Comment };
                for hid in 0..=nel {
                    if !rng.chance(1, 3) {
                        continue;
                    }
                    let n = rng.range(1, 2);
                    let mut ops: Vec<Op> = vec![];
                    for _ in 0..n {
                        let op = if sub == Sub::Comment { crate::mutgen::comment_op(rng) } else { crate::mutgen::token_op(rng) };
                        if matches!(op, Op::Replace(_) | Op::Remove) && ops.iter().any(|o| matches!(o, Op::Replace(_) | Op::Remove)) {
                            continue;
                        }
                        ops.push(op);
                    }
                    c.script.push(ScriptEntry { hid, sub, offset: tok.start, ops });
                }
            }
            Kind::Doctype { .. } => {
                if rng.chance(1, 3) {
                    c.script.push(ScriptEntry { hid: nel, sub: Sub::Doctype, offset: tok.start, ops: vec![Op::Remove] });
                }
            }
            _ => {}
        }
    }
    // Replace+Remove from two handlers on one text/comment token: undocumented, keep one
    let mut seen: std::collections::HashSet<(usize, u8)> = Default::default();
    for e in c.script.iter_mut() {
        if e.sub == Sub::Text || e.sub == Sub::Comment {
            let key = (e.offset, if e.sub == Sub::Text { 0 } else { 1 });
            let had = seen.contains(&key);
            let mut mine = false;
            e.ops.retain(|o| {
                if matches!(o, Op::Replace(_) | Op::Remove) {
                    if had || mine {
                        return false;
                    }
                    mine = true;
                }
                true
            });
            if mine {
                seen.insert(key);
            }
        }
    }
    if rng.bool() {
        c.script.push(ScriptEntry { hid: nel, sub: Sub::End, offset: 0, ops: (0..rng.range(1, 2)).map(|_| Op::Append(content(rng))).collect() });
    }
}

impl Prop for C07 {
    fn id(&self) -> &'static str {
        "C07"
    }
    fn rule(&self) -> String {
        "generated documents with ground truth (nested / unclosed / mis-nested / void / foreign self-closing elements, text-mode elements, comments, doctype, CDATA; any of the 36 encodings) x 1-2 selector handlers + 0-1 document handler x random op scripts addressed by token offset (before/after/prepend/append/set_inner_content/replace/remove/remove_and_keep_content, start_tag() ops, attribute set/remove, rename, on_end_tag handlers with their own edits, comment/text/doctype edits, document-end appends; Html and Text content, streaming variants; several ops and several handlers per token) x write schedules; the sink bytes are compared with the RefEditor (per-token before*/self|replacement/after* lists, suppression inside removed content, semantic comparison of re-serialised tags via RefAttr); non-trivial: >= 2 ops on one token, ops on nested matched elements, or ops on a void / self-closing / implicitly-closed element; distinct = hash(document, script, handlers, schedule)".into()
    }
    fn assumptions(&self) -> Vec<String> {
        vec![
            "combinations whose outcome the documentation does not fix are not generated: remove after replace on one token, content ops after remove/replace/set_inner_content on one element, append/after on elements closed by an ancestor's end tag".into(),
            "re-serialised start tags are compared semantically (name, ordered attributes with untouched raw values, self-closing flag), not byte for byte".into(),
        ]
    }
    fn run_shard(&self, ctx: &mut Ctx<'_>) {
        let n = ctx.budget(100_000, 25_000_000);
        let encs = gen::ascii_compatible_encodings();
        for i in 0..n {
            if i % 32 == 0 && ctx.should_stop() {
                break;
            }
            let enc = if ctx.rng.chance(3, 4) { encoding_rs::UTF_8 } else { *ctx.rng.pick(&encs) };
            let dense = ctx.rng.chance(1, 3);
            const DENSE_NAMES: &[&str] = &["div", "span", "p", "b"];
            let o = if dense {
                structgen::Opts { foreign: ctx.rng.chance(1, 4), max_nodes: 24, max_depth: 8, weird_attrs: false, names: Some(DENSE_NAMES), close_percent: *ctx.rng.pick(&[50usize, 70, 90]), ..Default::default() }
            } else {
                structgen::Opts { foreign: ctx.rng.chance(1, 2), max_nodes: 12, ..Default::default() }
            };
            let d0 = structgen::gen_doc(&mut ctx.rng, &o);
            let doc = if enc == encoding_rs::UTF_8 { d0 } else { d0.transcode(enc, &gen::mappable_chars(enc)) };
            let tree = reftree::build(&doc);
            let nh = ctx.rng.range(1, 2);
            let hs: Vec<H7> = (0..nh)
                .map(|k| {
                    let sel = if k == 0 && ctx.rng.chance(2, 3) {
                        SelList(vec![selgen::Complex { first: selgen::Compound(vec![selgen::Simple::Universal]), rest: vec![] }])
                    } else if dense {
                        selgen::gen_structural(&mut ctx.rng, DENSE_NAMES)
                    } else {
                        SelList(vec![selgen::Complex { first: selgen::Compound(vec![selgen::Simple::Type((*ctx.rng.pick(selgen::SEL_TYPES)).to_string())]), rest: vec![] }])
                    };
                    H7 { sel, element: true, text: ctx.rng.chance(1, 3), comments: ctx.rng.chance(1, 3) }
                })
                .collect();
            let doch = if ctx.rng.chance(2, 3) { Some((true, true, ctx.rng.bool(), true)) } else { None };
            let cuts = gen::random_cuts(&mut ctx.rng, doc.bytes.len());
            let mut case = Case7 { encoding: enc.name().to_string(), hs, doch, script: vec![], doc_hex: hex(&doc.bytes), doc: describe(&doc), cuts };
            let allow_special = ctx.rng.chance(1, 3);
            gen_script(&mut ctx.rng, &mut case, &doc, &tree, allow_special);
            ctx.eval();
            match check(&case, &doc) {
                Ok(o) => {
                    ctx.add("ops_applied", o.ops as u64);
                    ctx.add("ops_on_void_selfclosing_or_implicitly_closed", o.special as u64);
                    ctx.count(&format!("enc:{}", enc.name()));
                    if o.nontrivial {
                        ctx.nontrivial(mix(fnv(&doc.bytes), fnv(serde_json::to_string(&(&case.script, &case.cuts, &case.encoding)).unwrap().as_bytes())));
                        ctx.sample(|| serde_json::json!({"doc": show(&doc.bytes), "script": case.script, "handlers": case.hs.iter().map(|h| h.sel.css()).collect::<Vec<_>>(), "cuts": case.cuts}));
                    }
                }
                Err((key, msg)) => {
                    if ctx.is_known(&key) {
                        ctx.violation(Violation { key, msg, case: serde_json::to_value(&case).unwrap() });
                        continue;
                    }
                    // shrink the script
                    let mut best = case.clone();
                    let mut bmsg = msg;
                    let mut k = 0;
                    while k < best.script.len() {
                        let mut c2 = best.clone();
                        c2.script.remove(k);
                        match check(&c2, &doc) {
                            Err((k2, m2)) if k2 == key => {
                                best = c2;
                                bmsg = m2;
                            }
                            _ => k += 1,
                        }
                    }
                    // shrink ops inside entries
                    for ei in 0..best.script.len() {
                        let mut oi = 0;
                        while oi < best.script[ei].ops.len() && best.script[ei].ops.len() > 1 {
                            let mut c2 = best.clone();
                            c2.script[ei].ops.remove(oi);
                            match check(&c2, &doc) {
                                Err((k2, m2)) if k2 == key => {
                                    best = c2;
                                    bmsg = m2;
                                }
                                _ => oi += 1,
                            }
                        }
                    }
                    if !best.cuts.is_empty() {
                        let mut c2 = best.clone();
                        c2.cuts.clear();
                        if let Err((k2, m2)) = check(&c2, &doc) {
                            if k2 == key {
                                best = c2;
                                bmsg = m2;
                            }
                        }
                    }
                    if !ctx.violation(Violation { key, msg: bmsg, case: serde_json::to_value(&best).unwrap() }) {
                        return;
                    }
                }
            }
        }
    }
    fn replay(&self, case: &Value) -> Result<Vec<Violation>, String> {
        let c: Case7 = serde_json::from_value(case.clone()).map_err(|e| e.to_string())?;
        let doc = undescribe(unhex(&c.doc_hex), &c.doc);
        match check(&c, &doc) {
            Ok(_) => Ok(vec![]),
            Err((key, msg)) => Ok(vec![Violation { key, msg, case: case.clone() }]),
        }
    }
    fn watchdog_s(&self, tier: Tier) -> u64 {
        tier.pick(400, 3000)
    }
}
