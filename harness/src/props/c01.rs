//! C01 Pass-through identity.

use super::Case;
use crate::core::{show, shrink_input, Ctx, Prop, Tier, Violation};
use crate::engine::{self, Config, DocH, ElH, ErrKind, Rec, Res, RunResult};
use crate::gen::{self, SoupKind};
use crate::rng::{fnv, mix};
use serde_json::Value;

pub struct C01;

/// merged captured text intervals: (start, end, complete)
pub fn captured_intervals(r: &RunResult) -> Vec<(usize, usize, bool)> {
    let mut v: Vec<(usize, usize, bool)> = vec![];
    for rec in &r.log {
        if let Rec::Text { start, end, last, .. } = rec {
            v.push((*start, *end, *last));
        }
    }
    v.sort();
    v.dedup();
    let mut out: Vec<(usize, usize, bool)> = vec![];
    for (s, e, l) in v {
        if let Some(last) = out.last_mut() {
            if s <= last.1 {
                if e > last.1 {
                    last.1 = e;
                }
                last.2 |= l;
                continue;
            }
        }
        out.push((s, e, l));
    }
    out
}

/// whole-buffer decode/encode oracle for one text node
pub fn normalise(enc: &'static encoding_rs::Encoding, bytes: &[u8], complete: bool) -> Vec<u8> {
    let mut dec = enc.new_decoder_without_bom_handling();
    let mut s = String::with_capacity(dec.max_utf8_buffer_length(bytes.len()).unwrap_or(bytes.len() * 3 + 16));
    let (_r, _read, _) = dec.decode_to_string(bytes, &mut s, complete);
    let (out, _, _) = enc.encode(&s);
    out.into_owned()
}

pub fn expected_output(input: &[u8], enc: &'static encoding_rs::Encoding, iv: &[(usize, usize, bool)]) -> Vec<u8> {
    let mut out = Vec::with_capacity(input.len());
    let mut pos = 0;
    for &(s, e, complete) in iv {
        if s < pos || e > input.len() || s > e {
            // bogus locations: let the comparison fail on plain identity
            continue;
        }
        out.extend_from_slice(&input[pos..s]);
        out.extend_from_slice(&normalise(enc, &input[s..e], complete));
        pos = e;
    }
    out.extend_from_slice(&input[pos..]);
    out
}

pub struct Obs {
    pub nontrivial: bool,
    pub ambiguity: bool,
    pub normalised: bool,
    pub invocations: usize,
}

pub fn check(cfg: &Config, input: &[u8], cuts: &[usize]) -> Result<Obs, (String, String)> {
    let r = engine::run(cfg, input, cuts).map_err(|e| ("harness".to_string(), e))?;
    let out = r.out();
    let iv = captured_intervals(&r);
    let exp = expected_output(input, cfg.enc(), &iv);
    let normalised = exp != input;
    let has_markup = input.contains(&b'<');
    let nontrivial = has_markup && (r.invocations > 0 || gen::cuts_inside(cuts, input.len()));
    match r.final_res() {
        Res::Ok => {
            if out != exp {
                let i = out.iter().zip(exp.iter()).position(|(a, b)| a != b).unwrap_or(out.len().min(exp.len()));
                return Err((
                    "output-differs".into(),
                    format!(
                        "pass-through output differs from the input at byte {i} (out len {}, expected len {})\n input:    {}\n output:   {}\n expected: {}",
                        out.len(),
                        exp.len(),
                        show(input),
                        show(&out),
                        show(&exp)
                    ),
                ));
            }
            Ok(Obs { nontrivial, ambiguity: false, normalised, invocations: r.invocations })
        }
        Res::Err(ErrKind::Ambiguity) => {
            if !cfg.strict {
                return Err(("ambiguity-nonstrict".into(), "ParsingAmbiguity error in non-strict mode".into()));
            }
            if !exp.starts_with(&out) {
                return Err((
                    "ambiguity-not-prefix".into(),
                    format!("strict run failed with ParsingAmbiguity but emitted bytes are not a prefix of the input\n input:  {}\n output: {}", show(input), show(&out)),
                ));
            }
            Ok(Obs { nontrivial, ambiguity: true, normalised, invocations: r.invocations })
        }
        Res::Err(k) => Err(("unexpected-error".into(), format!("observers only, no limit, yet the run failed with {k:?}\n input: {}", show(input)))),
        Res::Panic(m) => Err(("panic".into(), format!("panic: {m}\n input: {}", show(input)))),
    }
}

pub fn gen_input(rng: &mut crate::rng::Rng, enc: &'static encoding_rs::Encoding, max_frags: usize) -> Vec<u8> {
    let raw = rng.chance(1, 4);
    let mut input = gen::soup(rng, max_frags, SoupKind::Any, raw);
    if rng.chance(1, 10) {
        gen::mutate(rng, &mut input);
    }
    if enc != encoding_rs::UTF_8 && rng.bool() {
        let s = String::from_utf8_lossy(&input).into_owned();
        input = enc.encode(&s).0.into_owned();
    }
    input
}

/// A document that declares its encoding with `<meta>` (after 0-2 meta tags that declare nothing usable), with text that is
/// valid in the declared encoding: under `adjust_charset_on_meta_tag` and capturing text handlers the output must be the
/// input, byte for byte (decoding the text in any other encoding would replace or re-encode bytes).
pub fn gen_declared(rng: &mut crate::rng::Rng) -> (Config, Vec<u8>) {
    const LABELS: &[&str] = &["windows-1251", "koi8-r", "shift_jis", "gbk", "iso-8859-2", "euc-kr", "big5", "windows-1252", "euc-jp", "iso-8859-7"];
    let label = *rng.pick(LABELS);
    let enc = encoding_rs::Encoding::for_label(label.as_bytes()).unwrap();
    let chars = gen::mappable_chars(enc);
    let mut v: Vec<u8> = b"<!doctype html><html><head><title>t</title>".to_vec();
    for _ in 0..rng.below(3) {
        v.extend_from_slice(rng.pick(&["<meta name=a content=b>", "<meta charset=no-such-label>", "<meta http-equiv=refresh content=5>", "<meta charset=\"\">", "<meta charset=utf-16le>", "<meta http-equiv=content-type content=\"text/html\">", "<META NAME=viewport CONTENT=x>"]).as_bytes());
    }
    match rng.below(3) {
        0 => v.extend_from_slice(format!("<meta charset={label}>").as_bytes()),
        1 => v.extend_from_slice(format!("<META CHARSET=\"{}\">", label.to_ascii_uppercase()).as_bytes()),
        _ => v.extend_from_slice(format!("<meta http-equiv=\"Content-Type\" content=\"text/html; charset={label}\">").as_bytes()),
    }
    // a later, different declaration must be ignored
    if rng.chance(1, 3) {
        v.extend_from_slice(b"<meta charset=utf-8>");
    }
    v.extend_from_slice(b"</head><body><p title=x>");
    let n = rng.range(1, 40);
    let text: String = (0..n).map(|_| if rng.chance(1, 3) { *rng.pick(&['a', ' ', 'z', '1']) } else { *rng.pick(&chars) }).filter(|c| *c != '<' && *c != '&').collect();
    v.extend_from_slice(&enc.encode(&text).0);
    v.extend_from_slice(b"</p><!-- c --><b>");
    let text2: String = (0..rng.range(0, 12)).map(|_| *rng.pick(&chars)).filter(|c| *c != '<' && *c != '&').collect();
    v.extend_from_slice(&enc.encode(&text2).0);
    v.extend_from_slice(b"</b></body></html>");
    let mut cfg = Config { adjust_charset: true, send: rng.chance(1, 8), ..Default::default() };
    cfg.doc.push(DocH { text: true, comments: rng.bool(), doctype: rng.bool(), end: true, ..Default::default() });
    if rng.bool() {
        cfg.el.push(ElH { selector: (*rng.pick(&["*", "p", "b", "meta", "body *"])).to_string(), element: rng.bool(), text: true, ..Default::default() });
    }
    (cfg, v)
}

pub fn check_declared(cfg: &Config, input: &[u8], cuts: &[usize]) -> Result<(), (String, String)> {
    let r = engine::run(cfg, input, cuts).map_err(|e| ("harness".to_string(), e))?;
    match r.final_res() {
        Res::Ok => {
            let out = r.out();
            if out != input {
                let i = out.iter().zip(input.iter()).position(|(a, b)| a != b).unwrap_or(out.len().min(input.len()));
                return Err(("declared-encoding-output-differs".into(), format!("the document declares its encoding with <meta>, its text is valid in that encoding, handlers only observe, yet the output differs from the input at byte {i}\n input:  {}\n output: {}\n cuts: {cuts:?}", show(input), show(&out))));
            }
            Ok(())
        }
        other => Err(("unexpected-error".into(), format!("{other:?}\n input: {}", show(input)))),
    }
}

/// a document made of a few very long tokens (comments, attribute values, attribute lists, doctype, text) between short ones
pub fn gen_long_tokens(rng: &mut crate::rng::Rng) -> Vec<u8> {
    let mut v: Vec<u8> = vec![];
    for _ in 0..rng.range(3, 9) {
        let n = rng.range(3000, 12000);
        match rng.below(7) {
            0 => {
                v.extend(b"<!--");
                v.extend(std::iter::repeat(b'c').take(n));
                v.extend(b"-->");
            }
            1 => {
                v.extend(b"<a href=\"");
                v.extend(std::iter::repeat(b'v').take(n));
                v.extend(b"\">");
            }
            2 => {
                v.extend(b"<div");
                for k in 0..n / 12 {
                    v.extend(format!(" a{k}=b{k}").bytes());
                }
                v.extend(b">");
            }
            3 => {
                v.extend(b"<!DOCTYPE html PUBLIC \"");
                v.extend(std::iter::repeat(b'p').take(n));
                v.extend(b"\">");
            }
            4 => v.extend(std::iter::repeat(b't').take(n)),
            5 => {
                v.extend(b"</span ");
                v.extend(std::iter::repeat(b'e').take(n));
                v.extend(b">");
            }
            _ => v.extend(gen::soup(rng, 6, gen::SoupKind::HtmlOnly, false)),
        }
        if rng.bool() {
            v.extend(*rng.pick(&[&b"<span>"[..], b"</span>", b"x", b"<!--c-->", b"<p a=b>", b"<br>"]));
        }
    }
    v
}

impl Prop for C01 {
    fn id(&self) -> &'static str {
        "C01"
    }
    fn rule(&self) -> String {
        "every 50th case: a document that declares a legacy encoding with <meta> after unusable meta tags, text valid in that encoding, adjust_charset_on_meta_tag and capturing text handlers (output must equal the input); otherwise cases = (adversarial soup / raw bytes / mutated input, one of the 36 ASCII-compatible encodings, random observer handler set incl. none, strict flag, write schedule incl. byte-wise, empty writes and (every 40th case) all 1-cuts); a case is non-trivial when the input contains '<' and (at least one handler ran or the schedule cut strictly inside the input); distinct = hash(input, schedule, config)".into()
    }
    fn assumptions(&self) -> Vec<String> {
        vec![
            "text captured by a text handler is compared after whole-buffer decode/encode with encoding_rs; text-node boundaries are taken from lol-html's own source locations (checked independently by C14)".into(),
        ]
    }
    fn run_shard(&self, ctx: &mut Ctx<'_>) {
        let n = ctx.budget(1_500_000, 40_000_000);
        let encs = gen::ascii_compatible_encodings();
        for i in 0..n {
            if i % 64 == 0 && ctx.should_stop() {
                break;
            }
            if i % 50 == 7 {
                let (cfg, input) = gen_declared(&mut ctx.rng);
                let cuts = gen::random_cuts(&mut ctx.rng, input.len());
                ctx.eval();
                match check_declared(&cfg, &input, &cuts) {
                    Ok(()) => {
                        ctx.count("declared_encoding_documents");
                        ctx.nontrivial(mix(fnv(&input), fnv(format!("{cuts:?}").as_bytes())));
                    }
                    Err((key, msg)) => {
                        if key == "harness" {
                            panic!("harness error: {msg}");
                        }
                        let mut v = Case::new(&cfg, &input, &cuts).to_value();
                        v["declared"] = serde_json::json!(true);
                        if !ctx.violation(Violation { key, msg, case: v }) {
                            return;
                        }
                    }
                }
                continue;
            }
            let enc = if ctx.rng.bool() { encoding_rs::UTF_8 } else { *ctx.rng.pick(&encs) };
            let mut cfg = Config { encoding: enc.name().to_string(), strict: ctx.rng.chance(1, 3), send: ctx.rng.chance(1, 8), esi: ctx.rng.chance(1, 10), ..Default::default() };
            if !ctx.rng.chance(1, 5) {
                gen::observer_config(&mut ctx.rng, &mut cfg);
            }
            let mut input = gen_input(&mut ctx.rng, enc, 30);
            let long_tokens = i % 350 == 3;
            if long_tokens {
                // tokens of 3-12 KiB that stay buffered over several writes (arena growth, shifts with a long unfinished tail,
                // writes that consume the whole buffer, then a write ending inside a token again)
                input = gen_long_tokens(&mut ctx.rng);
                ctx.count("long_token_documents");
            }
            let all_cuts = i % 40 == 0 && !long_tokens;
            let big = !all_cuts && ctx.rng.chance(1, 20000) && !input.is_empty();
            if big {
                // a few ~1 MiB documents
                let k = (1 << 20) / input.len() + 1;
                input = input.repeat(k);
                ctx.count("documents_of_1MiB");
            }
            let schedules: Vec<Vec<usize>> = if big {
                let k = ctx.rng.range(1000, 70000);
                vec![(1..input.len()).filter(|x| x % k == 0).collect()]
            } else if long_tokens {
                let k = ctx.rng.range(4, 16);
                let mut c: Vec<usize> = (0..k).map(|_| ctx.rng.below(input.len().max(1))).collect();
                c.sort_unstable();
                c.dedup();
                vec![c]
            } else if all_cuts { (0..=input.len()).map(|c| vec![c]).collect() } else { vec![gen::random_cuts(&mut ctx.rng, input.len())] };
            for cuts in schedules {
                ctx.eval();
                match check(&cfg, &input, &cuts) {
                    Ok(o) => {
                        if o.nontrivial {
                            let h = mix(mix(fnv(&input), fnv(format!("{cuts:?}").as_bytes())), fnv(serde_json::to_string(&cfg).unwrap().as_bytes()));
                            ctx.nontrivial(h);
                        }
                        if o.ambiguity {
                            ctx.count("strict_ambiguity_errors");
                        }
                        if o.normalised {
                            ctx.count("cases_with_normalised_text");
                        }
                        if o.invocations > 0 {
                            ctx.count("cases_with_handler_invocations");
                        }
                        if cfg.has_handlers() {
                            ctx.count("cases_with_handlers");
                        } else {
                            ctx.count("cases_without_handlers");
                        }
                        if all_cuts {
                            ctx.count("all_1cut_schedules");
                        }
                        ctx.count(&format!("enc:{}", enc.name()));
                        if o.nontrivial {
                            ctx.sample(|| Case::new(&cfg, &input, &cuts).to_value());
                        }
                    }
                    Err((key, msg)) => {
                        if key == "harness" {
                            panic!("harness error: {msg}");
                        }
                        // shrink
                        let k2 = key.clone();
                        let (i2, c2) = shrink_input(&input, &cuts, &mut |i, c| matches!(check(&cfg, i, c), Err((k, _)) if k == k2));
                        let msg2 = match check(&cfg, &i2, &c2) {
                            Err((_, m)) => m,
                            _ => msg,
                        };
                        let case = Case::new(&cfg, &i2, &c2);
                        if !ctx.violation(Violation { key, msg: msg2, case: case.to_value() }) {
                            return;
                        }
                    }
                }
            }
        }
    }
    fn replay(&self, case: &Value) -> Result<Vec<Violation>, String> {
        let c: Case = serde_json::from_value(case.clone()).map_err(|e| e.to_string())?;
        if case.get("declared").is_some() {
            return Ok(match check_declared(&c.cfg, &c.input(), &c.cuts) {
                Ok(()) => vec![],
                Err((key, msg)) => vec![Violation { key, msg, case: case.clone() }],
            });
        }
        match check(&c.cfg, &c.input(), &c.cuts) {
            Ok(_) => Ok(vec![]),
            Err((key, msg)) => Ok(vec![Violation { key, msg, case: case.clone() }]),
        }
    }
    fn watchdog_s(&self, tier: Tier) -> u64 {
        tier.pick(300, 2400)
    }
}
