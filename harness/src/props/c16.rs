//! C16 Element and attribute read API reflects the start tag exactly.

use super::c04::{describe, undescribe, DocDesc};
use crate::core::{hex, show, unhex, Ctx, Prop, Tier, Violation};
use crate::engine::{self, Config, ElH, Op, Rec, Res, ScriptEntry, Sub};
use crate::gen;
use crate::refattr;
use crate::reftree;
use crate::rng::{fnv, mix};
use crate::structgen::{self, Doc};
use serde_derive::{Deserialize, Serialize};
use serde_json::Value;

pub struct C16;

#[derive(Clone, Debug, Serialize, Deserialize)]
pub struct Case16 {
    pub encoding: String,
    pub doc_hex: String,
    pub doc: DocDesc,
    pub cuts: Vec<usize>,
    pub esi: bool,
    /// edits applied to some start tags, then read back: (token offset, ops)
    pub edits: Vec<(usize, Vec<Op>)>,
}

fn dec(enc: &'static encoding_rs::Encoding, b: &[u8]) -> String {
    enc.decode_without_bom_handling(b).0.into_owned()
}

#[derive(Default)]
pub struct Obs {
    pub tags: usize,
    pub rich_tags_cut_inside: usize,
    pub probes: usize,
    pub readbacks: usize,
}

pub fn check(c: &Case16, doc: &Doc) -> Result<Obs, (String, String)> {
    let enc = encoding_rs::Encoding::for_label(c.encoding.as_bytes()).unwrap();
    let mut cfg = Config { encoding: c.encoding.clone(), esi: c.esi, probe_attrs: true, post_read: true, ..Default::default() };
    cfg.el.push(ElH { selector: "*".into(), element: true, ..Default::default() });
    for (off, ops) in &c.edits {
        cfg.script.push(ScriptEntry { hid: 0, sub: Sub::El, offset: *off, ops: ops.clone() });
    }
    let r = engine::run(&cfg, &doc.bytes, &c.cuts).map_err(|e| ("harness".to_string(), e))?;
    if r.final_res() != Res::Ok {
        return Err(("unexpected-result".into(), format!("{:?}\n doc: {}", r.final_res(), show(&doc.bytes))));
    }
    let tree = reftree::build(doc);
    let mut obs = Obs::default();
    let els: Vec<&engine::ElRec> = r.log.iter().filter_map(|x| if let Rec::El(e) = x { Some(&**e) } else { None }).collect();
    if els.len() != tree.nodes.len() {
        return Err(("missing-elements".into(), format!("{} element events for {} start tags\n doc: {}", els.len(), tree.nodes.len(), show(&doc.bytes))));
    }
    for (e, n) in els.iter().zip(tree.nodes.iter()) {
        let tag = &doc.bytes[n.start..n.end];
        let ctx = |m: String| format!("{m}\n tag: {} (at byte {})\n cuts: {:?} encoding: {}\n doc: {}", show(tag), n.start, c.cuts, c.encoding, show(&doc.bytes));
        let p = refattr::parse_tag(tag).ok_or_else(|| ("harness".to_string(), "refattr".to_string()))?;
        obs.tags += 1;
        let name_pc = dec(enc, &tag[p.name.0..p.name.1]);
        if e.name_pc != name_pc {
            return Err(("tag-name-preserve-case".into(), ctx(format!("tag_name_preserve_case() = {:?}, the tag says {:?}", e.name_pc, name_pc))));
        }
        if e.name != name_pc.to_ascii_lowercase() {
            return Err(("tag-name".into(), ctx(format!("tag_name() = {:?}, expected {:?}", e.name, name_pc.to_ascii_lowercase()))));
        }
        if e.attrs.len() != p.attrs.len() {
            return Err(("attribute-count".into(), ctx(format!("attributes() has {} entries, the tag has {}", e.attrs.len(), p.attrs.len()))));
        }
        let mut truth: Vec<(String, String, String)> = vec![];
        for (a, ra) in e.attrs.iter().zip(p.attrs.iter()) {
            let npc = dec(enc, &tag[ra.name.0..ra.name.1]);
            let v = dec(enc, &tag[ra.value.0..ra.value.1]);
            if a.name_pc != npc || a.name != npc.to_ascii_lowercase() {
                return Err(("attribute-name".into(), ctx(format!("attribute name {:?} / {:?}, the tag says {:?}", a.name, a.name_pc, npc))));
            }
            if a.value != v {
                return Err(("attribute-value".into(), ctx(format!("attribute {:?} has value {:?}, the tag says {:?}", a.name, a.value, v))));
            }
            truth.push((npc.to_ascii_lowercase(), npc, v));
        }
        // get_attribute / has_attribute: ASCII case-insensitive, first duplicate
        for (probe, got, has) in &e.probes {
            obs.probes += 1;
            let lp = probe.to_ascii_lowercase();
            // names that cannot be attribute names (forbidden characters / not encodable) can never be looked up
            let lookup_possible = !lp.is_empty() && !lp.bytes().any(|b| matches!(b, b' ' | b'\n' | b'\r' | b'\t' | b'\x0c' | b'/' | b'>' | b'=')) && !enc.encode(&lp).2;
            let exp = if lookup_possible { truth.iter().find(|(ln, _, _)| *ln == lp).map(|(_, _, v)| v.clone()) } else { None };
            // the attribute name bytes are compared ASCII case-insensitively at byte level
            if *got != exp || *has != exp.is_some() {
                // byte-level vs char-level lowercasing can differ only for non-ASCII-compatible trail bytes; report
                return Err(("attribute-lookup".into(), ctx(format!("get_attribute({probe:?}) = {got:?}, has_attribute = {has}; expected {exp:?}"))));
            }
        }
        if e.self_closing != p.self_closing {
            return Err(("is-self-closing".into(), ctx(format!("is_self_closing() = {}, the syntax says {}", e.self_closing, p.self_closing))));
        }
        let can = !n.no_content;
        if e.can_have_content != can {
            return Err(("can-have-content".into(), ctx(format!("can_have_content() = {}, expected {} (namespace {:?}, void list / self-closing syntax)", e.can_have_content, can, n.ns))));
        }
        if e.ns != n.ns.uri() {
            return Err(("namespace-uri".into(), ctx(format!("namespace_uri() = {}, the foreign-content context says {}", e.ns, n.ns.uri()))));
        }
        if p.attrs.len() >= 2 && c.cuts.iter().any(|&x| x > n.start && x < n.end) {
            obs.rich_tags_cut_inside += 1;
        }
        // reads after edits on the same token
        if let Some((_, ops)) = c.edits.iter().find(|(o, _)| *o == n.start) {
            let Some(post) = &e.post else { return Err(("harness".into(), "no post read".into())) };
            obs.readbacks += 1;
            // model: ordered list of (lowercased name, value)
            let mut model: Vec<(String, String)> = truth.iter().map(|(l, _, v)| (l.clone(), v.clone())).collect();
            let mut name = (e.name.clone(), e.name_pc.clone());
            let mut errs = post.op_errors.iter();
            for op in ops {
                match op {
                    Op::SetAttr(k, v) => {
                        let lk = k.to_ascii_lowercase();
                        let valid = !lk.is_empty() && !lk.bytes().any(|b| matches!(b, b' ' | b'\n' | b'\r' | b'\t' | b'\x0c' | b'/' | b'>' | b'=')) && !enc.encode(&lk).2;
                        if !valid {
                            if errs.next().map_or(true, |e| !e.starts_with("SetAttr")) {
                                return Err(("set-attribute-accepted-bad-name".into(), ctx(format!("set_attribute({k:?}, ..) did not report an error"))));
                            }
                            continue;
                        }
                        // what the value reads back as: encoded into the document encoding (NCR for unmappable), then decoded
                        let vv = dec(enc, &enc.encode(v).0);
                        if let Some(slot) = model.iter_mut().find(|(n, _)| *n == lk) {
                            slot.1 = vv;
                        } else {
                            model.push((lk, vv));
                        }
                    }
                    Op::RemoveAttr(k) => {
                        let lk = k.to_ascii_lowercase();
                        model.retain(|(n, _)| *n != lk);
                    }
                    Op::SetTagName(k) => {
                        let first_ok = k.as_bytes().first().map_or(false, |b| b.is_ascii_alphabetic());
                        let valid = first_ok && !k.bytes().any(|b| matches!(b, b' ' | b'\n' | b'\r' | b'\t' | b'\x0c' | b'/' | b'>')) && !enc.encode(k).2;
                        if !valid {
                            if errs.next().map_or(true, |e| !e.starts_with("SetTagName")) {
                                return Err(("set-tag-name-accepted-bad-name".into(), ctx(format!("set_tag_name({k:?}) did not report an error"))));
                            }
                            continue;
                        }
                        name = (k.to_ascii_lowercase(), k.clone());
                    }
                    _ => {}
                }
            }
            if post.attrs != model {
                return Err(("read-after-edit".into(), ctx(format!("after {ops:?} attributes() reads {:?}, expected {:?}", post.attrs, model))));
            }
            if (post.name.clone(), post.name_pc.clone()) != name {
                return Err(("read-after-edit".into(), ctx(format!("after {ops:?} the tag name reads {:?}/{:?}, expected {:?}", post.name, post.name_pc, name))));
            }
        }
    }
    Ok(obs)
}

impl Prop for C16 {
    fn id(&self) -> &'static str {
        "C16"
    }
    fn rule(&self) -> String {
        "start tags with generated attribute syntax (unquoted / single / double quoted, missing values, duplicates, odd characters, '/' placements, upper case, non-ASCII names) in HTML, SVG and MathML context (incl. integration points), re-encoded into any of the 36 encodings, with write boundaries anywhere (incl. inside the tag); every getter of every element (tag_name, preserve-case name, attributes() order / names / raw values, get_attribute / has_attribute probes with case variants and an absent name, is_self_closing, can_have_content, namespace_uri) is compared with RefAttr over the tag's ground-truth bytes decoded with encoding_rs, RefTree and the generator's namespace truth; reads after set_attribute / remove_attribute / set_tag_name are compared with a list model; non-trivial: a tag with >= 2 attributes and a write boundary inside it; distinct = hash(document, encoding, schedule, edits)".into()
    }
    fn assumptions(&self) -> Vec<String> {
        vec!["RefAttr and the generator's namespace / void truth are validated against html5ever (UTF-8) by `vcheck selftest` and by C03's domain B".into()]
    }
    fn run_shard(&self, ctx: &mut Ctx<'_>) {
        let n = ctx.budget(120_000, 30_000_000);
        let encs = gen::ascii_compatible_encodings();
        for i in 0..n {
            if i % 32 == 0 && ctx.should_stop() {
                break;
            }
            let enc = match ctx.rng.below(4) {
                0 | 1 => encoding_rs::UTF_8,
                2 => *ctx.rng.pick(&encs),
                // double-byte encodings whose trail bytes overlap ASCII letters
                _ => *ctx.rng.pick(&[encoding_rs::SHIFT_JIS, encoding_rs::BIG5, encoding_rs::GBK, encoding_rs::GB18030, encoding_rs::EUC_KR, encoding_rs::EUC_JP]),
            };
            let esi = ctx.rng.chance(1, 12);
            let o = structgen::Opts { foreign: ctx.rng.chance(2, 3), max_nodes: 10, esi, comments: false, doctype: false, ..Default::default() };
            let d0 = structgen::gen_doc(&mut ctx.rng, &o);
            let doc = if enc == encoding_rs::UTF_8 { d0 } else { d0.transcode(enc, &gen::mappable_chars(enc)) };
            // a cut at every byte of some tag, or random cuts
            let tree = reftree::build(&doc);
            let cuts: Vec<usize> = if !tree.nodes.is_empty() && ctx.rng.bool() {
                let nn = &tree.nodes[ctx.rng.below(tree.nodes.len())];
                if ctx.rng.bool() {
                    (nn.start..=nn.end).collect()
                } else {
                    vec![ctx.rng.range(nn.start, nn.end)]
                }
            } else {
                gen::random_cuts(&mut ctx.rng, doc.bytes.len())
            };
            let mut edits = vec![];
            for nn in &tree.nodes {
                if ctx.rng.chance(1, 4) {
                    let k = ctx.rng.range(1, 3);
                    // names of the element's own attributes (decoded), so that edits hit existing - possibly
                    // non-ASCII - attributes
                    let own_raw: Vec<String> = {
                        let tag = &doc.bytes[nn.start..nn.end];
                        refattr::parse_tag(tag).map(|p| p.attrs.iter().map(|a| dec(enc, &tag[a.name.0..a.name.1])).collect()).unwrap_or_default()
                    };
                    let ops: Vec<Op> = (0..k)
                        .map(|_| match ctx.rng.below(7) {
                            5 if !own_raw.is_empty() => Op::SetAttr(ctx.rng.pick(&own_raw).clone(), "nv".to_string()),
                            6 if !own_raw.is_empty() => Op::RemoveAttr(ctx.rng.pick(&own_raw).to_ascii_uppercase()),
                            0 | 1 => Op::SetAttr((*ctx.rng.pick(&["a", "A", "class", "ID", "new-attr", "data-x", "é", "a b", "", "x=y", "title", "Lang"])).to_string(), (*ctx.rng.pick(&["", "v", "a\"b", "é", "中", "x y", "&amp;", "<>"])).to_string()),
                            2 | 3 => Op::RemoveAttr((*ctx.rng.pick(&["a", "A", "class", "id", "ID", "data-x", "nope", "title", "b", "HREF"])).to_string()),
                            _ => Op::SetTagName((*ctx.rng.pick(&["q", "Q1", "x-y", "", "1a", "a b", "é", "hé", "DIV"])).to_string()),
                        })
                        .collect();
                    edits.push((nn.start, ops));
                }
            }
            let case = Case16 { encoding: enc.name().to_string(), doc_hex: hex(&doc.bytes), doc: describe(&doc), cuts, esi, edits };
            ctx.eval();
            match check(&case, &doc) {
                Ok(o) => {
                    ctx.add("start_tags_checked", o.tags as u64);
                    ctx.add("attribute_lookups_probed", o.probes as u64);
                    ctx.add("reads_after_edit_checked", o.readbacks as u64);
                    ctx.add("rich_tags_with_cut_inside", o.rich_tags_cut_inside as u64);
                    ctx.count(&format!("enc:{}", enc.name()));
                    if o.rich_tags_cut_inside > 0 {
                        ctx.nontrivial(mix(fnv(&doc.bytes), fnv(serde_json::to_string(&(&case.cuts, &case.edits, &case.encoding)).unwrap().as_bytes())));
                        ctx.sample(|| serde_json::json!({"doc": show(&doc.bytes), "cuts": case.cuts, "encoding": case.encoding, "edits": case.edits}));
                    }
                }
                Err((key, msg)) => {
                    if key == "harness" {
                        panic!("{msg}");
                    }
                    if !ctx.violation(Violation { key, msg, case: serde_json::to_value(&case).unwrap() }) {
                        return;
                    }
                }
            }
        }
    }
    fn replay(&self, case: &Value) -> Result<Vec<Violation>, String> {
        let c: Case16 = serde_json::from_value(case.clone()).map_err(|e| e.to_string())?;
        let doc = undescribe(unhex(&c.doc_hex), &c.doc);
        match check(&c, &doc) {
            Ok(_) => Ok(vec![]),
            Err((key, msg)) => Ok(vec![Violation { key, msg, case: case.clone() }]),
        }
    }
    fn watchdog_s(&self, tier: Tier) -> u64 {
        tier.pick(400, 3000)
    }
}
