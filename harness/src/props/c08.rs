//! C08 Inserted text and validated names/values cannot change markup structure (re-parse oracle).

use crate::core::{show, Ctx, Prop, Tier, Violation};
use crate::engine::{self, Config, Content, DocH, ElH, Op, Rec, Res, ScriptEntry, Sub};
use crate::gen;
use crate::oracle::{decode_entities, html5ever_tokens, norm_text, HTok};
use crate::props::c03::{lol_tokens_enc, merge_text_pub, norm_h, to_htoks, LRes};
use crate::rng::{fnv, mix, Rng};
use lol_html::TokenCaptureFlags;
use serde_derive::{Deserialize, Serialize};
use serde_json::Value;

pub struct C08;

/// (template, selector of the target element, context of the target's content)
const TEMPLATES: &[(&str, &str, &str)] = &[
    ("<div a=1><p id=t class=c>hello <b>w</b></p><span>z</span></div><i>tail</i>", "#t", "data"),
    ("<head><title id=t>abc &amp; d</title></head><p>z</p>", "#t", "rcdata"),
    ("<form><textarea id=t>line</textarea><p>z</p></form>", "#t", "rcdata"),
    ("<style id=t>a{b:c}</style><p>z</p>", "#t", "raw"),
    ("<div><script id=t>var a = 1 < 2;</script><p>z</p></div>", "#t", "raw"),
    ("<xmp id=t>x<y></xmp><p>z</p>", "#t", "raw"),
    ("<iframe id=t>fr</iframe><p>z</p>", "#t", "raw"),
    ("<noscript id=t>ns</noscript><p>z</p>", "#t", "raw"),
    ("<p>a</p><svg><g id=t>x<circle/></g><![CDATA[cd]]></svg><p>z</p>", "#t", "data"),
    ("<p>a</p><svg><desc id=t>de<b>s</b></desc></svg><p>z</p>", "#t", "data"),
    ("<math><mi id=t>x</mi><mo>+</mo></math><p>z</p>", "#t", "data"),
    ("<ul><li id=t>one</li><li>two</ul><p>z</p>", "#t", "data"),
    ("<table><tr><td id=t>c</td></tr></table><p>z</p>", "#t", "data"),
    ("<p>a<br id=t>b</p><p>z</p>", "#t", "void"),
    ("<p><a id=t \u{30a2}\u{30a4}\u{30b3}\u{30f3}=1 href=x \u{8a9e}=y>l</a></p><p>z</p>", "#t", "data"),
    ("<p>q</p><plaintext id=t>rest <b> of </plaintext> doc", "#t", "raw"),
    // self-closing syntax after an UNQUOTED last attribute: a re-serialised tag must keep the '/' out of that value
    ("<p>a<br id=t class=c /><b>b</b></p><p>z</p>", "#t", "void"),
    ("<p>a</p><svg><circle id=t r=5 fill=red /><g>x</g></svg><p>z</p>", "#t", "void"),
    ("<p>a<img id=t alt='x' src=a.png/></p><p>z</p>", "#t", "void"),
    ("<div id=t data-k=v />hello</div><p>z</p>", "#t", "data"),
    ("<p>a</p><math><mspace id=t width=1em\t/><mi>x</mi></math><p>z</p>", "#t", "void"),
];

const COMMENT_TEMPLATES: &[&str] = &["<p>a<!--c--></p><p>z</p>", "<svg><!--c--><g/></svg><p>z</p>", "<!--c--><title>t</title>", "<div><!-- x --><script>s</script></div>"];

const PIECES: &[&str] = &[
    "<", ">", "&", "\"", "'", "-", "--", "-->", "--!>", "->", "!", "/", "=", " ", "\t", "\n", "\0", "]]>", "</script", "</script>", "</title>", "</style>", "<!--", "<b>", "</p>", "&amp;", "&lt;", "&#60;", "&quot", "a", "B", "x y", "é", "中", "😀", "\u{feff}", "\u{2028}", "`", "\\", "</textarea>", "<![CDATA[", "<svg>", "</xmp>", "onload=x", "\r", "\x0c", ";", "#", "&#x3c;script&#x3e;",
];

pub fn nasty(rng: &mut Rng) -> String {
    let n = rng.range(1, 5);
    let mut s = String::new();
    for _ in 0..n {
        s.push_str(*rng.pick(PIECES));
    }
    s
}

#[derive(Clone, Debug, Serialize, Deserialize)]
pub enum Ins {
    /// element op with Text content on the template's target
    El(Op),
    /// text handler op on the target's text
    Text(Op),
    /// comment op in a comment template
    Comment(Op),
    /// document end append
    DocEnd(Op),
}

#[derive(Clone, Debug, Serialize, Deserialize)]
pub struct Case8 {
    pub encoding: String,
    pub template: String,
    pub selector: String,
    pub context: String,
    pub ins: Ins,
    pub cuts: Vec<usize>,
}

fn skeleton(v: &[HTok]) -> Vec<HTok> {
    v.iter().filter(|t| !matches!(t, HTok::Text(_))).cloned().collect()
}

fn all_text(v: &[HTok]) -> String {
    let mut s = String::new();
    for t in v {
        if let HTok::Text(x) = t {
            s.push_str(x);
        }
    }
    s
}

fn tokens_both(bytes: &[u8], enc: &'static encoding_rs::Encoding) -> Result<(Vec<HTok>, Vec<HTok>), String> {
    let l = match lol_tokens_enc(bytes, &[], TokenCaptureFlags::all(), false, enc) {
        LRes::Ok(t, _) => merge_text_pub(to_htoks(&t)?),
        LRes::Ambiguity(..) => return Err("ambiguity".into()),
        LRes::Other(e) => return Err(e),
    };
    let s = enc.decode_without_bom_handling(bytes).0.into_owned();
    let h = norm_h(html5ever_tokens(&s));
    if crate::oracle::take_oracle_panicked() {
        return Err("ORACLE-PANICKED".into());
    }
    Ok((l, h))
}

pub struct Obs {
    pub accepted: bool,
    pub significant: bool,
}

fn text_content_of(op: &Op) -> Option<&Content> {
    match op {
        Op::Before(c) | Op::After(c) | Op::Replace(c) | Op::Prepend(c) | Op::Append(c) | Op::SetInner(c) | Op::StBefore(c) | Op::StAfter(c) | Op::StReplace(c) => Some(c),
        _ => None,
    }
}

pub fn check(c: &Case8) -> Result<Obs, (String, String)> {
    let enc = encoding_rs::Encoding::for_label(c.encoding.as_bytes()).unwrap();
    let input = enc.encode(&c.template).0.into_owned();
    let mut cfg = Config { encoding: c.encoding.clone(), post_read: true, ..Default::default() };
    let (sub, op) = match &c.ins {
        Ins::El(op) => {
            cfg.el.push(ElH { selector: c.selector.clone(), element: true, ..Default::default() });
            (Sub::El, op.clone())
        }
        Ins::Text(op) => {
            cfg.el.push(ElH { selector: c.selector.clone(), text: true, always_text: vec![op.clone()], ..Default::default() });
            (Sub::Text, op.clone())
        }
        Ins::Comment(op) => {
            cfg.doc.push(DocH { comments: true, always_comment: vec![op.clone()], ..Default::default() });
            (Sub::Comment, op.clone())
        }
        Ins::DocEnd(op) => {
            cfg.doc.push(DocH { end: true, always_end: vec![op.clone()], ..Default::default() });
            (Sub::End, op.clone())
        }
    };
    if sub == Sub::El {
        // address the target by its offset
        let dry = engine::run(&cfg, &input, &[]).map_err(|e| ("harness".to_string(), e))?;
        let off = dry.log.iter().find_map(|r| if let Rec::El(e) = r { Some(e.start) } else { None }).ok_or_else(|| ("harness".to_string(), format!("target not matched in {}", c.template)))?;
        cfg.script.push(ScriptEntry { hid: 0, sub: Sub::El, offset: off, ops: vec![op.clone()] });
    }
    let r = engine::run(&cfg, &input, &c.cuts).map_err(|e| ("harness".to_string(), e))?;
    let ctx = |m: String| format!("{m}\n encoding: {} op: {:?}\n template: {}\n output:   {}", c.encoding, c.ins, c.template, show(&r.out()));
    if r.final_res() != Res::Ok {
        return Err(("unexpected-result".into(), ctx(format!("{:?}", r.final_res()))));
    }
    let out = r.out();
    let (orig_l, orig_h) = match tokens_both(&input, enc) {
        Ok(x) => x,
        // html5ever itself panicked: the oracle has no opinion on this case
        Err(e) if e == "ORACLE-PANICKED" => return Ok(Obs { accepted: false, significant: false }),
        Err(e) => return Err(("harness".to_string(), format!("original does not tokenize: {e}"))),
    };
    let (out_l, out_h) = match tokens_both(&out, enc) {
        Ok(x) => x,
        Err(e) if e == "ORACLE-PANICKED" => return Ok(Obs { accepted: false, significant: false }),
        Err(e) => return Err(("output-does-not-tokenize".into(), ctx(e))),
    };
    // the two tokenizers must agree on the output at all
    if out_l != out_h {
        return Err(("output-tokenized-differently".into(), ctx(format!("lol-html (A) and html5ever (B) disagree on the OUTPUT: {}", crate::norm::first_diff(&out_l, &out_h)))));
    }
    // rejected inputs leave the token unchanged
    let errs: Vec<String> = r.log.iter().filter_map(|x| if let Rec::El(e) = x { e.post.as_ref().map(|p| p.op_errors.clone()) } else { None }).flatten().collect();
    match &op {
        Op::SetTagName(name) => {
            if !errs.is_empty() {
                if out != input {
                    return Err(("rejected-name-changed-output".into(), ctx(format!("set_tag_name({name:?}) was rejected but the output changed"))));
                }
                return Ok(Obs { accepted: false, significant: true });
            }
            let lname = norm_text(&name.to_ascii_lowercase());
            // the documentation requires the new name to have the same content model as the old one
            if changes_content_model(&lname) || c.context != "data" {
                return Ok(Obs { accepted: true, significant: false });
            }
            // structure: same skeleton with the target (and its end tag) renamed
            let exp: Vec<HTok> = rename_target(&orig_h, &lname);
            if skeleton(&out_h) != skeleton(&exp) || all_text(&out_h) != all_text(&exp) {
                return Err(("rename-changed-structure".into(), ctx(format!("set_tag_name({name:?}) was accepted; re-parsed output (A) vs original with the target renamed (B): {}", crate::norm::first_diff(&out_h, &exp)))));
            }
            Ok(Obs { accepted: true, significant: true })
        }
        Op::SetAttr(name, value) => {
            if !errs.is_empty() {
                if out != input {
                    return Err(("rejected-name-changed-output".into(), ctx(format!("set_attribute({name:?}, ..) was rejected but the output changed"))));
                }
                return Ok(Obs { accepted: false, significant: true });
            }
            let lname = norm_text(&name.to_ascii_lowercase());
            let exp_val = norm_text(&decode_entities(&norm_text(&value.replace('"', "&quot;")), true));
            let exp = set_attr_on_target(&orig_h, &lname, &exp_val);
            if out_h != exp {
                return Err(("attribute-changed-structure".into(), ctx(format!("set_attribute({name:?}, {value:?}): re-parsed output (A) vs original plus exactly that attribute (B): {}", crate::norm::first_diff(&out_h, &exp)))));
            }
            Ok(Obs { accepted: true, significant: true })
        }
        Op::SetText(t) => {
            let rejected = out == input;
            // either rejected (unchanged) or the comment text is exactly t
            let exp: Vec<HTok> = orig_h.iter().map(|x| if let HTok::Comment(_) = x { HTok::Comment(norm_text(t)) } else { x.clone() }).collect();
            if out_h != exp && !rejected {
                return Err(("comment-text-changed-structure".into(), ctx(format!("Comment::set_text({t:?}) was accepted; re-parsed output (A) vs original with that comment text (B): {}", crate::norm::first_diff(&out_h, &exp)))));
            }
            Ok(Obs { accepted: !rejected, significant: true })
        }
        other => {
            let Some(cont) = text_content_of(other) else { return Ok(Obs { accepted: true, significant: false }) };
            let s = &cont.s;
            // (1) the markup skeleton is the original one (minus what the op removes by design)
            let removes_target = matches!(other, Op::Replace(_)) && sub == Sub::El;
            let removes_children = matches!(other, Op::SetInner(_)) && sub == Sub::El;
            let removes_tag = matches!(other, Op::StReplace(_));
            let removes_comment = matches!(other, Op::Replace(_)) && sub == Sub::Comment;
            let sk_out = skeleton(&out_h);
            let sk_orig = skeleton(&orig_h);
            let ok = if removes_target || removes_children || removes_tag || removes_comment { is_subsequence(&sk_out, &sk_orig) && sk_out.len() < sk_orig.len() + 1 } else { sk_out == sk_orig };
            if !ok {
                return Err(("text-insertion-changed-structure".into(), ctx(format!("Text content {s:?} inserted with {other:?}: the markup skeleton of the re-parsed output (A) differs from the original's (B): {}", crate::norm::first_diff(&sk_out, &sk_orig)))));
            }
            // (2) in Data / RCDATA context the inserted text reads back as exactly s
            let text_out = all_text(&out_h);
            let text_orig = all_text(&orig_h);
            let end_in_data = sub == Sub::End && !c.template.contains("<plaintext");
            if (sub != Sub::End && (c.context == "data" || c.context == "rcdata")) || end_in_data {
                let ns = norm_text(s);
                let replaces_text = matches!(other, Op::Replace(_)) && sub == Sub::Text;
                if !ns.is_empty() && !replaces_text && !contains_insertion(&text_orig, &text_out, &ns) && !(removes_target || removes_children) {
                    return Err(("inserted-text-not-read-back".into(), ctx(format!("Text content {s:?} does not read back verbatim: text before {:?}, after {:?}", text_orig, text_out))));
                }
            }
            Ok(Obs { accepted: true, significant: s.chars().any(|ch| "<>&\"'-!/=".contains(ch) || !ch.is_ascii()) })
        }
    }
}

/// `out` is `orig` with `s` inserted at one or more positions
fn contains_insertion(orig: &str, out: &str, s: &str) -> bool {
    let (o, u, sb) = (orig.as_bytes(), out.as_bytes(), s.as_bytes());
    if sb.is_empty() || u.len() <= o.len() || (u.len() - o.len()) % sb.len() != 0 {
        return false;
    }
    // reach[i][j]: orig[..i] and out[..j] aligned
    let mut reach = vec![vec![false; u.len() + 1]; o.len() + 1];
    reach[0][0] = true;
    for i in 0..=o.len() {
        for j in 0..=u.len() {
            if !reach[i][j] {
                continue;
            }
            if i < o.len() && j < u.len() && o[i] == u[j] {
                reach[i + 1][j + 1] = true;
            }
            if j + sb.len() <= u.len() && &u[j..j + sb.len()] == sb {
                reach[i][j + sb.len()] = true;
            }
        }
    }
    reach[o.len()][u.len()]
}

fn is_subsequence(a: &[HTok], b: &[HTok]) -> bool {
    let mut it = b.iter();
    a.iter().all(|x| it.any(|y| y == x))
}

fn is_target(attrs: &[(String, String)]) -> bool {
    attrs.iter().any(|(k, v)| k == "id" && v == "t")
}

fn rename_target(v: &[HTok], name: &str) -> Vec<HTok> {
    // the target is the start tag with id=t; its own end tag is the matching one by simple nesting of that name
    let mut out = v.to_vec();
    let mut target_name: Option<String> = None;
    let mut depth = 0usize;
    for t in out.iter_mut() {
        match t {
            HTok::Start { name: n, attrs, .. } => {
                if target_name.is_none() && is_target(attrs) {
                    target_name = Some(n.clone());
                    *n = name.to_string();
                    depth = 1;
                } else if Some(&*n) == target_name.as_ref() && depth > 0 {
                    depth += 1;
                }
            }
            HTok::End { name: n } => {
                if Some(&*n) == target_name.as_ref() && depth > 0 {
                    depth -= 1;
                    if depth == 0 {
                        *n = name.to_string();
                        target_name = Some("\u{0}".into());
                    }
                }
            }
            _ => {}
        }
    }
    out
}

fn set_attr_on_target(v: &[HTok], name: &str, value: &str) -> Vec<HTok> {
    let mut out = v.to_vec();
    for t in out.iter_mut() {
        if let HTok::Start { attrs, .. } = t {
            if is_target(attrs) {
                if let Some(slot) = attrs.iter_mut().find(|(k, _)| k == name) {
                    slot.1 = value.to_string();
                } else {
                    attrs.push((name.to_string(), value.to_string()));
                }
                break;
            }
        }
    }
    out
}

fn changes_content_model(lname: &str) -> bool {
    gen::TEXT_MODE_NAMES.contains(&lname)
        || crate::structgen::is_void(lname)
        || matches!(
            lname,
            "svg" | "math" | "select" | "template" | "frameset" | "table" | "tbody" | "thead" | "tfoot" | "tr" | "td" | "th" | "caption" | "col" | "colgroup" | "html" | "head" | "body" | "frame" | "option" | "optgroup" | "p" | "li" | "dd" | "dt" | "a" | "b" | "i" | "form" | "button" | "nobr" | "h1" | "h2" | "h3" | "h4" | "h5" | "h6" | "image" | "isindex"
        )
        || lname.starts_with("esi:")
}

fn gen_case(rng: &mut Rng, encs: &[&'static encoding_rs::Encoding]) -> Case8 {
    let enc = if rng.chance(1, 2) { encoding_rs::UTF_8 } else { *rng.pick(encs) };
    let s = nasty(rng);
    let text = |rng: &mut Rng, s: &str| Content { s: s.to_string(), html: false, streaming: rng.chance(1, 5) };
    let kind = rng.below(10);
    if kind == 0 {
        let t = *rng.pick(COMMENT_TEMPLATES);
        let op = match rng.below(5) {
            0 | 1 | 2 => Op::SetText(s.clone()),
            3 => Op::Before(text(rng, &s)),
            _ => Op::After(text(rng, &s)),
        };
        return Case8 { encoding: enc.name().into(), template: t.into(), selector: String::new(), context: "data".into(), ins: Ins::Comment(op), cuts: vec![] };
    }
    let (t, sel, ctx) = *rng.pick(TEMPLATES);
    let cuts = gen::random_cuts(rng, t.len());
    if kind == 1 {
        return Case8 { encoding: enc.name().into(), template: t.into(), selector: sel.into(), context: ctx.into(), ins: Ins::DocEnd(Op::Append(text(rng, &s))), cuts };
    }
    if kind == 2 && ctx != "void" {
        let op = match rng.below(3) {
            0 => Op::Before(text(rng, &s)),
            1 => Op::After(text(rng, &s)),
            _ => Op::Replace(text(rng, &s)),
        };
        return Case8 { encoding: enc.name().into(), template: t.into(), selector: sel.into(), context: ctx.into(), ins: Ins::Text(op), cuts };
    }
    let op = match rng.below(12) {
        0 => Op::Before(text(rng, &s)),
        1 => Op::After(text(rng, &s)),
        2 => Op::Prepend(text(rng, &s)),
        3 => Op::Append(text(rng, &s)),
        4 => Op::SetInner(text(rng, &s)),
        5 => Op::Replace(text(rng, &s)),
        6 => Op::StAfter(text(rng, &s)),
        7 | 8 => Op::SetAttr(if rng.bool() { s.clone() } else { (*rng.pick(&["title", "data-x", "href", "class", "x", "\u{30a2}\u{30a4}\u{30b3}\u{30f3}", "\u{8a9e}", "ID", "HREF"])).to_string() }, nasty(rng)),
        9 | 10 => Op::SetTagName(if rng.chance(2, 3) { format!("x{}", s) } else { s.clone() }),
        _ => Op::StBefore(text(rng, &s)),
    };
    Case8 { encoding: enc.name().into(), template: t.into(), selector: sel.into(), context: ctx.into(), ins: Ins::El(op), cuts }
}

impl Prop for C08 {
    fn id(&self) -> &'static str {
        "C08"
    }
    fn rule(&self) -> String {
        "adversarial strings (pieces from '<>&\"'-!/= ', whitespace, NUL, comment terminators, ']]>', '</script', entities, non-BMP and unmappable characters) x every insertion API (Text content via before/after/prepend/append/set_inner_content/replace on elements, start tags, text chunks, comments and document end; set_attribute names and values; Comment::set_text; set_tag_name) x insertion contexts (data, RCDATA, RAWTEXT, script, plaintext, SVG, MathML integration point, CDATA, void element) x 36 encodings; the output is re-tokenised by lol-html and by html5ever (after decoding from the document encoding): both must agree, the markup skeleton must be the original one plus exactly the intended change, the inserted text must read back verbatim in data/RCDATA context, rejected inputs must leave the output unchanged; non-trivial: the string contains a markup-significant or non-ASCII character; distinct = hash(case)".into()
    }
    fn assumptions(&self) -> Vec<String> {
        vec!["names that legitimately change the content model (text-mode, void, svg/math, table-structure, formatting/auto-closing names) are not judged, as the API documentation requires the caller to avoid them".into()]
    }
    fn run_shard(&self, ctx: &mut Ctx<'_>) {
        let n = ctx.budget(400_000, 40_000_000);
        let encs = gen::ascii_compatible_encodings();
        for i in 0..n {
            if i % 32 == 0 && ctx.should_stop() {
                break;
            }
            let case = gen_case(&mut ctx.rng, &encs);
            ctx.eval();
            match check(&case) {
                Ok(o) => {
                    if o.accepted {
                        ctx.count("accepted");
                    } else {
                        ctx.count("rejected_and_unchanged");
                    }
                    ctx.count(&format!("context:{}", case.context));
                    if o.significant {
                        ctx.nontrivial(fnv(serde_json::to_string(&case).unwrap().as_bytes()));
                        ctx.sample(|| serde_json::to_value(&case).unwrap());
                    }
                }
                Err((key, msg)) => {
                    if key == "harness" {
                        panic!("{msg}");
                    }
                    if !ctx.violation(Violation { key, msg, case: serde_json::to_value(&case).unwrap() }) {
                        return;
                    }
                }
            }
        }
        let _ = mix(0, 0);
    }
    fn replay(&self, case: &Value) -> Result<Vec<Violation>, String> {
        let c: Case8 = serde_json::from_value(case.clone()).map_err(|e| e.to_string())?;
        match check(&c) {
            Ok(_) => Ok(vec![]),
            Err((key, msg)) => Ok(vec![Violation { key, msg, case: case.clone() }]),
        }
    }
    fn watchdog_s(&self, tier: Tier) -> u64 {
        tier.pick(400, 3000)
    }
}
