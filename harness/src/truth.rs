//! Oracle validation: the generator's ground truth is cross-checked against html5ever (UTF-8).
//! A disagreement is a HARNESS bug and must never be reported as a property violation.

use crate::oracle::{decode_entities, html5ever_tokens, norm_text, HTok};
use crate::refattr;
use crate::structgen::{Doc, Kind};

/// abstract token list derived from the ground truth, in html5ever's vocabulary
pub fn truth_tokens(d: &Doc) -> Result<Vec<HTok>, String> {
    let mut out: Vec<HTok> = vec![];
    let s = |a: usize, b: usize| String::from_utf8_lossy(&d.bytes[a..b]).into_owned();
    for t in &d.toks {
        match &t.kind {
            Kind::Start { name, self_closing, .. } => {
                let p = refattr::parse_tag(&d.bytes[t.start..t.end]).ok_or_else(|| format!("RefAttr cannot parse {:?}", s(t.start, t.end)))?;
                if p.end != t.end - t.start {
                    return Err(format!("RefAttr ends tag early: {:?}", s(t.start, t.end)));
                }
                if p.self_closing != *self_closing {
                    return Err(format!("self-closing truth mismatch for {:?}", s(t.start, t.end)));
                }
                let mut attrs: Vec<(String, String)> = vec![];
                for a in &p.attrs {
                    let n = norm_text(&s(t.start + a.name.0, t.start + a.name.1)).to_ascii_lowercase();
                    let v = norm_text(&decode_entities(&norm_text(&s(t.start + a.value.0, t.start + a.value.1)), true));
                    if !attrs.iter().any(|(k, _)| *k == n) {
                        attrs.push((n, v));
                    }
                }
                out.push(HTok::Start { name: name.to_ascii_lowercase(), attrs, self_closing: *self_closing });
            }
            Kind::End { name } => out.push(HTok::End { name: name.to_ascii_lowercase() }),
            Kind::Text { tt } => {
                let raw = norm_text(&s(t.start, t.end));
                let txt = match *tt {
                    "Data" | "RCData" => norm_text(&decode_entities(&raw, false)),
                    _ => raw,
                };
                if let Some(HTok::Text(last)) = out.last_mut() {
                    last.push_str(&txt);
                } else {
                    out.push(HTok::Text(txt));
                }
            }
            Kind::Comment { text } => out.push(HTok::Comment(norm_text(&s(text.0, text.1)))),
            Kind::Doctype { name, public, system } => out.push(HTok::Doctype { name: name.clone(), public: public.clone(), system: system.clone(), force_quirks: false }),
            Kind::CdataMarker => {}
        }
    }
    Ok(out)
}

fn strip_quirks(v: Vec<HTok>) -> Vec<HTok> {
    v.into_iter()
        .map(|t| match t {
            HTok::Doctype { name, public, system, .. } => HTok::Doctype { name, public, system, force_quirks: false },
            HTok::Start { name, attrs, self_closing } => HTok::Start { name: name.to_ascii_lowercase(), attrs, self_closing },
            HTok::End { name } => HTok::End { name: name.to_ascii_lowercase() },
            HTok::Text(s) => HTok::Text(norm_text(&s)),
            HTok::Comment(s) => HTok::Comment(norm_text(&s)),
        })
        .collect()
}

/// Ok(()) if html5ever agrees with the generator's truth
pub fn validate(d: &Doc) -> Result<(), String> {
    let Ok(text) = std::str::from_utf8(&d.bytes) else { return Ok(()) };
    let mine = truth_tokens(d)?;
    let theirs = strip_quirks(html5ever_tokens(text));
    if crate::oracle::take_oracle_panicked() {
        return Ok(());
    }
    // a truncated document: html5ever may emit tokens for the unfinished tail; compare the common prefix only
    if mine != theirs {
        let n = mine.len().min(theirs.len());
        for i in 0..n {
            if mine[i] != theirs[i] {
                return Err(format!("token {i}: generator {:?} vs html5ever {:?}\n doc: {}", mine[i], theirs[i], crate::core::show(&d.bytes)));
            }
        }
        return Err(format!("token count: generator {} vs html5ever {}\n last: {:?} / {:?}\n doc: {}", mine.len(), theirs.len(), mine.last(), theirs.last(), crate::core::show(&d.bytes)));
    }
    Ok(())
}
