//! Normalisation of handler event logs: text chunks of one node are concatenated, source
//! locations are dropped (they belong to C14), everything else is kept verbatim.

use crate::engine::{Rec, RunResult};
use std::collections::BTreeMap;

#[derive(Clone, Debug, PartialEq, Eq, Hash)]
pub enum NEv {
    El { hid: usize, name: String, name_pc: String, attrs: Vec<(String, String, String)>, ns: String, self_closing: bool, can_have_content: bool },
    EndTag { hid: usize, name: String, name_pc: String },
    Comment { hid: usize, text: String },
    Doctype { hid: usize, name: Option<String>, public: Option<String>, system: Option<String> },
    TextNode { hid: usize, text: String, tt: String, chunks_with_last: usize },
    DocEnd { hid: usize },
    /// a text node that never received its `last` chunk (only legal when the run failed)
    OpenText { hid: usize, text: String, tt: String },
}

#[derive(Debug, Default)]
pub struct NormInfo {
    pub text_nodes: usize,
    pub text_chunks: usize,
    /// protocol problems: chunk after last without new node, text type changing inside a node, …
    pub problems: Vec<String>,
}

/// `keep` maps a raw hid to Some(new hid) or None to drop the event
pub fn normalise(r: &RunResult, keep: &dyn Fn(usize) -> Option<usize>) -> (Vec<NEv>, NormInfo) {
    let mut out = vec![];
    let mut info = NormInfo::default();
    let mut pending: BTreeMap<usize, (String, String)> = BTreeMap::new();
    let mut last_node_end: BTreeMap<usize, usize> = BTreeMap::new();
    for rec in &r.log {
        match rec {
            Rec::Text { hid, text, tt, last, failed, start, end, .. } => {
                let Some(h) = keep(*hid) else { continue };
                info.text_chunks += 1;
                if !pending.contains_key(&h) && last_node_end.get(&h) == Some(start) && *start > 0 {
                    info.problems.push(format!("handler {h}: a new text node starts at byte {start}, exactly where the previous node's last_in_text_node chunk ended (two 'last' chunks for one node?)"));
                }
                if *last {
                    last_node_end.insert(h, *end);
                }
                let e = pending.entry(h).or_insert_with(|| (String::new(), tt.clone()));
                if &e.1 != tt {
                    info.problems.push(format!("text type changed inside a text node for handler {h}: {} -> {}", e.1, tt));
                }
                e.0.push_str(text);
                if *last && !*failed {
                    let (text, tt) = pending.remove(&h).unwrap();
                    info.text_nodes += 1;
                    out.push(NEv::TextNode { hid: h, text, tt, chunks_with_last: 1 });
                }
            }
            Rec::El(e) => {
                let Some(h) = keep(e.hid) else { continue };
                if pending.contains_key(&h) {
                    info.problems.push(format!("handler {h} got an element while its text node had no last_in_text_node chunk"));
                }
                out.push(NEv::El {
                    hid: h,
                    name: e.name.clone(),
                    name_pc: e.name_pc.clone(),
                    attrs: e.attrs.iter().map(|a| (a.name.clone(), a.name_pc.clone(), a.value.clone())).collect(),
                    ns: e.ns.clone(),
                    self_closing: e.self_closing,
                    can_have_content: e.can_have_content,
                });
            }
            Rec::EndTag { hid, name, name_pc, .. } => {
                let Some(h) = keep(*hid) else { continue };
                if pending.contains_key(&h) {
                    info.problems.push(format!("handler {h} got an end tag while its text node had no last_in_text_node chunk"));
                }
                out.push(NEv::EndTag { hid: h, name: name.clone(), name_pc: name_pc.clone() });
            }
            Rec::Comment { hid, text, .. } => {
                let Some(h) = keep(*hid) else { continue };
                if pending.contains_key(&h) {
                    info.problems.push(format!("handler {h} got a comment while its text node had no last_in_text_node chunk"));
                }
                out.push(NEv::Comment { hid: h, text: text.clone() });
            }
            Rec::Doctype { hid, name, public, system, .. } => {
                let Some(h) = keep(*hid) else { continue };
                out.push(NEv::Doctype { hid: h, name: name.clone(), public: public.clone(), system: system.clone() });
            }
            Rec::DocEnd { hid, .. } => {
                let Some(h) = keep(*hid) else { continue };
                if pending.contains_key(&h) {
                    info.problems.push(format!("handler {h} reached document end while its text node had no last_in_text_node chunk"));
                }
                out.push(NEv::DocEnd { hid: h });
            }
            _ => {}
        }
    }
    for (h, (text, tt)) in pending {
        out.push(NEv::OpenText { hid: h, text, tt });
    }
    (out, info)
}

pub fn all(h: usize) -> Option<usize> {
    Some(h)
}

pub fn first_diff<T: PartialEq + std::fmt::Debug>(a: &[T], b: &[T]) -> String {
    let n = a.len().min(b.len());
    for i in 0..n {
        if a[i] != b[i] {
            return format!("first difference at event {i}:\n   A: {:?}\n   B: {:?}", a[i], b[i]);
        }
    }
    if a.len() != b.len() {
        let (l, which) = if a.len() > b.len() { (&a[n], "A") } else { (&b[n], "B") };
        return format!("lengths differ ({} vs {}); extra event in {which}: {:?}", a.len(), b.len(), l);
    }
    "identical".into()
}
