//! External oracle: html5ever 0.39 tokenizer driving a real tree builder (RcDom), wrapped the way
//! upstream's (disabled) conformance suite does it.

use html5ever::tendril::StrTendril;
use html5ever::tokenizer::{BufferQueue, TagKind, Token, TokenSink, TokenSinkResult, Tokenizer, TokenizerOpts};
use html5ever::TokenizerResult;
use html5ever::tree_builder::{TreeBuilder, TreeBuilderOpts};
use markup5ever_rcdom::RcDom;
use std::cell::RefCell;

#[derive(Clone, Debug, PartialEq, Eq)]
pub enum HTok {
    Doctype { name: Option<String>, public: Option<String>, system: Option<String>, force_quirks: bool },
    Start { name: String, attrs: Vec<(String, String)>, self_closing: bool },
    End { name: String },
    Comment(String),
    Text(String),
}

struct Proxy<'a, S> {
    inner: S,
    tokens: RefCell<&'a mut Vec<HTok>>,
}

impl<S> Proxy<'_, S> {
    fn push_text(&self, s: &str) {
        let tokens = &mut **self.tokens.borrow_mut();
        if let Some(HTok::Text(last)) = tokens.last_mut() {
            last.push_str(s);
        } else {
            tokens.push(HTok::Text(s.to_string()));
        }
    }
}

impl<S: TokenSink> TokenSink for Proxy<'_, S> {
    type Handle = S::Handle;

    fn process_token(&self, token: Token, line_number: u64) -> TokenSinkResult<Self::Handle> {
        match token {
            Token::DoctypeToken(ref d) => {
                self.tokens.borrow_mut().push(HTok::Doctype {
                    name: d.name.as_ref().map(ToString::to_string),
                    public: d.public_id.as_ref().map(ToString::to_string),
                    system: d.system_id.as_ref().map(ToString::to_string),
                    force_quirks: d.force_quirks,
                });
            }
            Token::TagToken(ref tag) => {
                let name = tag.name.to_string();
                self.tokens.borrow_mut().push(match tag.kind {
                    TagKind::StartTag => HTok::Start {
                        name,
                        attrs: tag.attrs.iter().map(|a| (a.name.local.to_string(), a.value.to_string())).collect(),
                        self_closing: tag.self_closing,
                    },
                    TagKind::EndTag => HTok::End { name },
                });
            }
            Token::CommentToken(ref s) => self.tokens.borrow_mut().push(HTok::Comment(s.to_string())),
            Token::CharacterTokens(ref s) if !s.is_empty() => self.push_text(s),
            Token::NullCharacterToken => self.push_text("\0"),
            _ => {}
        }
        self.inner.process_token(token, line_number)
    }

    fn end(&self) {
        self.inner.end();
    }

    fn adjusted_current_node_present_but_not_in_html_namespace(&self) -> bool {
        self.inner.adjusted_current_node_present_but_not_in_html_namespace()
    }
}

thread_local! {
    static ORACLE_PANICKED: std::cell::Cell<bool> = const { std::cell::Cell::new(false) };
}

/// true if html5ever itself panicked since the last call (html5ever 0.39 indexes out of bounds in
/// `extract_a_character_encoding_from_a_meta_element` for `content="text/html; charset"`): the oracle has no opinion then
pub fn take_oracle_panicked() -> bool {
    ORACLE_PANICKED.with(|c| c.replace(false))
}

pub fn html5ever_tokens(input: &str) -> Vec<HTok> {
    match std::panic::catch_unwind(|| html5ever_tokens_inner(input)) {
        Ok(t) => t,
        Err(_) => {
            ORACLE_PANICKED.with(|c| c.set(true));
            vec![]
        }
    }
}

fn html5ever_tokens_inner(input: &str) -> Vec<HTok> {
    let mut tokens = Vec::new();
    let b = BufferQueue::default();
    b.push_back(StrTendril::from(input));
    {
        let t = Tokenizer::new(
            Proxy { inner: TreeBuilder::new(RcDom::default(), TreeBuilderOpts::default()), tokens: RefCell::new(&mut tokens) },
            TokenizerOpts { discard_bom: false, ..TokenizerOpts::default() },
        );
        // scripts and encoding indicators are ignored: keep feeding until the queue is drained
        loop {
            match t.feed(&b) {
                TokenizerResult::Done => break,
                _ => continue,
            }
        }
        t.end();
    }
    tokens
}

#[derive(Clone, Copy, Debug, PartialEq, Eq)]
pub enum ProbeCtx {
    /// the tree builder ignored the probe start tag (in select / in frameset / after frameset insertion modes)
    Ignored,
    /// inserted, with a `select` element among its ancestors (template contents followed)
    InSelect,
    Elsewhere,
}

/// where does the real tree builder put an unknown start tag appended to `prefix`?
pub fn probe_context(prefix: &str) -> ProbeCtx {
    match std::panic::catch_unwind(|| probe_context_inner(prefix)) {
        Ok(c) => c,
        Err(_) => {
            ORACLE_PANICKED.with(|c| c.set(true));
            ProbeCtx::Ignored
        }
    }
}

fn probe_context_inner(prefix: &str) -> ProbeCtx {
    use html5ever::tendril::TendrilSink;
    use markup5ever_rcdom::{Handle, NodeData};
    let mut doc = String::with_capacity(prefix.len() + 8);
    doc.push_str(prefix);
    doc.push_str("<vprobe>");
    let dom = html5ever::parse_document(RcDom::default(), html5ever::ParseOpts { tokenizer: TokenizerOpts { discard_bom: false, ..TokenizerOpts::default() }, tree_builder: TreeBuilderOpts::default() }).one(doc);
    fn walk(h: &Handle, in_select: bool) -> Option<bool> {
        let mut inside = in_select;
        if let NodeData::Element { name, template_contents, .. } = &h.data {
            let n: &str = &name.local;
            if n == "vprobe" {
                return Some(in_select);
            }
            if n == "select" {
                inside = true;
            }
            if let Some(t) = template_contents.borrow().as_ref() {
                if let Some(r) = walk(t, inside) {
                    return Some(r);
                }
            }
        }
        for c in h.children.borrow().iter() {
            if let Some(r) = walk(c, inside) {
                return Some(r);
            }
        }
        None
    }
    match walk(&dom.document, false) {
        None => ProbeCtx::Ignored,
        Some(true) => ProbeCtx::InSelect,
        Some(false) => ProbeCtx::Elsewhere,
    }
}

// ------------------------------------------------------------------------------------------
// entity decoding (lol-html hands out raw text; html5ever decodes character references)
// ------------------------------------------------------------------------------------------

fn named_lookup(s: &str) -> Option<(usize, u32, u32)> {
    // longest match over html5ever's table; names are stored without '&', possibly with ';'
    let max = s.len().min(33);
    let mut best = None;
    let mut end = 0;
    let bytes = s.as_bytes();
    while end < max {
        let c = bytes[end];
        if !(c.is_ascii_alphanumeric() || c == b';') {
            break;
        }
        end += 1;
        if let Some(&(c1, c2)) = html5ever::data::NAMED_ENTITIES.get(&s[..end]) {
            if c1 != 0 {
                best = Some((end, c1, c2));
            }
        }
        if c == b';' {
            break;
        }
    }
    best
}

/// WHATWG character reference decoding. `in_attr` applies the attribute-value rule.
pub fn decode_entities(s: &str, in_attr: bool) -> String {
    let mut out = String::with_capacity(s.len());
    let b = s.as_bytes();
    let mut i = 0;
    while i < b.len() {
        if b[i] != b'&' {
            let ch = s[i..].chars().next().unwrap();
            out.push(ch);
            i += ch.len_utf8();
            continue;
        }
        // '&'
        let rest = &s[i + 1..];
        if rest.starts_with('#') {
            let r2 = &rest[1..];
            let (hex, digits_start) = if r2.starts_with('x') || r2.starts_with('X') { (true, 1) } else { (false, 0) };
            let ds = &r2[digits_start..];
            let n = ds.bytes().take_while(|c| if hex { c.is_ascii_hexdigit() } else { c.is_ascii_digit() }).count();
            if n == 0 {
                out.push('&');
                i += 1;
                continue;
            }
            let mut val: u32 = 0;
            let mut overflow = false;
            for c in ds[..n].chars() {
                let d = c.to_digit(if hex { 16 } else { 10 }).unwrap();
                val = match val.checked_mul(if hex { 16 } else { 10 }).and_then(|v| v.checked_add(d)) {
                    Some(v) if v <= 0x10FFFF * 16 => v,
                    _ => {
                        overflow = true;
                        0x110000
                    }
                };
                if val > 0x10FFFF {
                    overflow = true;
                }
            }
            let mut consumed = 1 + 1 + digits_start + n; // & # [x] digits
            if ds[n..].starts_with(';') {
                consumed += 1;
            }
            let ch = if overflow || val > 0x10FFFF || val == 0 || (0xD800..=0xDFFF).contains(&val) {
                '\u{fffd}'
            } else if (0x80..=0x9f).contains(&val) {
                match html5ever::data::C1_REPLACEMENTS[(val - 0x80) as usize] {
                    Some(c) => c,
                    None => char::from_u32(val).unwrap(),
                }
            } else {
                char::from_u32(val).unwrap_or('\u{fffd}')
            };
            out.push(ch);
            i += consumed;
            continue;
        }
        if let Some((len, c1, c2)) = named_lookup(rest) {
            let with_semicolon = rest.as_bytes()[len - 1] == b';';
            if in_attr && !with_semicolon {
                let next = rest.as_bytes().get(len).copied();
                if matches!(next, Some(c) if c == b'=' || c.is_ascii_alphanumeric()) {
                    out.push('&');
                    i += 1;
                    continue;
                }
            }
            out.push(char::from_u32(c1).unwrap());
            if c2 != 0 {
                out.push(char::from_u32(c2).unwrap());
            }
            i += 1 + len;
            continue;
        }
        out.push('&');
        i += 1;
    }
    out
}

/// input-stream preprocessing + NUL handling applied to both sides before comparing text:
/// CRLF / CR -> LF, NUL and U+FFFD identified
pub fn norm_text(s: &str) -> String {
    s.replace("\r\n", "\n").replace('\r', "\n").replace('\0', "\u{fffd}")
}
