//! Generators: adversarial tag soup, write schedules, encodings, observer handler sets.

use crate::engine::{Config, DocH, ElH};
use crate::rng::Rng;

pub const TEXT_MODE_NAMES: &[&str] = &[
    "script", "style", "title", "textarea", "xmp", "iframe", "noembed", "noframes", "noscript", "plaintext",
];

pub const HTML_NAMES: &[&str] = &[
    "a", "b", "p", "div", "span", "i", "table", "tr", "td", "th", "tbody", "caption", "select", "option", "optgroup",
    "template", "frameset", "frame", "html", "head", "body", "br", "img", "input", "hr", "meta", "link", "li", "ul",
    "dd", "dt", "h1", "form", "button", "nobr", "em", "font", "center", "pre", "listing", "col", "colgroup", "area",
    "base", "embed", "param", "source", "track", "wbr", "keygen", "menuitem", "basefont", "bgsound", "image", "main",
    "x-custom", "abcdefghijklm", "abcdefghijklmnop", "a1", "h7", "jzzzzzzzzzzzz",
];

pub const FOREIGN_NAMES: &[&str] = &[
    "svg", "math", "foreignObject", "foreignobject", "desc", "title", "annotation-xml", "mi", "mo", "mn", "ms", "mtext",
    "g", "path", "circle", "mglyph", "malignmark",
];

const RAW_FRAGS: &[&str] = &[
    "<", "</", "<!", "<!--", "-->", "--!>", "--", "-", "<!-", "<!--->", "<!-->", "<!---->", "<!DOCTYPE", "<!doctype html>",
    "<!DOCTYPE html PUBLIC \"pub\" 'sys'>", "<!DOCTYPE x SYSTEM 'y'>", "<!DOCTYPE>", " PUBLIC ", " SYSTEM ", "<![CDATA[",
    "]]>", "]]", "]", "<?", "<?xml v?>", ">", "/>", "/", "=", "\"", "'", "`", " ", "\t", "\n", "\x0c", "\r", "\r\n", "\0",
    "&amp;", "&#x41;", "&lt", "&", "&#", "&#x", "&notit;", "</>", "</ x>", "</3>", "<3", "< a>", "<a", "<a ", "</a", "</a ",
    "x", "hello world", "é", "中文", "😀", "\u{feff}", "<!--<script>", "<!--<script", "</script", "</scr", "</SCRIPT ", "</script/",
    "<script", "<script>", "</script>", "<title>", "</title>", "</TITLE\t>", "<textarea>", "</textarea>", "<style>", "</style>",
    "<xmp>", "</xmp>", "<plaintext>", "<noscript>", "</noscript>", "<iframe>", "</iframe>", "<noembed>", "</noembed>",
    "<noframes>", "</noframes>", "<select>", "</select>", "<template>", "</template>", "<frameset>", "</frameset>",
    "<table>", "</table>", "<br/>", "<p/>", "<div a=>", "<script a=>", "<title/>", "<textarea x='>", "<a b='c' d=\"e\" f=g h>",
    "<A HREF=X>", "</p >", "</p/>", "</p a=b>", "<p a=b a=c>", "<p =x>", "<p a==b>", "<p a=\"x>y\">", "<p\n>", "<p/ >", "<p //>",
    "<script><!--", "</di=x", "</x=", "</scripty", "<!--]</d", "</title=", "<style></sty=", "<title></ti<", "</t\0>",
    "<meta charset=windows-1251>", "<meta charset=\"shift_jis\">", "<meta http-equiv=content-type content=\"text/html; charset=koi8-r\">", "<meta charset=utf-16>", "<meta name=x content=y>",
    "<esi:include src=a>", "<esi:comment text=b>", "<esi:remove>", "</esi:remove>", "</esi:include>",
    "<body>", "</body>", "</html>", "<head>", "</head>", "<html>", "-- >", "--!", "<!--!>", "<!--x--!>", "<!--x--y-->", "<!x>",
];

const ATTR_FRAGS: &[&str] = &[
    " a", " a=b", " a='b'", " a=\"b\"", " class=x", " class='x y'", " id=y", " a=", " =", " a b", " A=B", " data-x=\"1\"",
    " a='>'", " a=\"<\"", " a=b/", " /", " a/b", " a=&amp;", " \u{e9}=\u{e9}", " a=\"\"", " a=''", "\ta\n=\nb", " a=b=c",
    " charset=utf-8", " color=red", " encoding=text/html", " encoding=\"application/xhtml+xml\"", " x:y=z",
];

#[derive(Clone, Copy, PartialEq, Eq)]
pub enum SoupKind {
    /// no svg / math tags at all
    HtmlOnly,
    /// anything goes
    Any,
}

/// short sequences over the vocabulary of the parsing-ambiguity guard: select / template / frameset contexts, the start
/// tags that leave them, stray end tags, and text-mode switching elements with markup-looking content
pub fn guard_soup(rng: &mut Rng) -> Vec<u8> {
    const CTX: &[&str] = &[
        "<select>", "<select>", "</select>", "<template>", "</template>", "<option>", "<optgroup>", "<input>", "<keygen>", "<textarea>", "</textarea>", "<script>", "</script>",
        "<template><template>", "</template></template>", "<select><template>", "</template></select>",
        "<frameset>", "</frameset>", "<frame>", "<table>", "<td>", "<tr>", "</table>", "<caption>", "<hr>", "<SELECT>", "<Template>", "</SELECT>", "<body>", "<p>", "<div>", "</div>",
    ];
    const PAYLOAD: &[&str] = &["<b>x</b>", "<i>", "t", "<!--c-->", "</b>", "<a href=x>"];
    let mut v: Vec<u8> = vec![];
    let n = 2 + rng.below(9);
    for _ in 0..n {
        match rng.below(10) {
            0..=5 => v.extend_from_slice(rng.pick(CTX).as_bytes()),
            6 | 7 => {
                let name = *rng.pick(TEXT_MODE_NAMES);
                v.extend_from_slice(format!("<{name}>").as_bytes());
                v.extend_from_slice(rng.pick(PAYLOAD).as_bytes());
                if rng.chance(3, 4) {
                    v.extend_from_slice(format!("</{name}>").as_bytes());
                }
            }
            _ => v.extend_from_slice(rng.pick(PAYLOAD).as_bytes()),
        }
    }
    v
}

/// like `guard_soup` but as a random walk over a stack of open select / template contexts, so that properly nested and
/// properly closed select / template structures (followed by text-mode elements) are common
pub fn guard_walk(rng: &mut Rng) -> Vec<u8> {
    const PAYLOAD: &[&str] = &["<b>x</b>", "<i>", "t", "<!--c-->", "</b>", "<option>o", "<optgroup>"];
    let mut v: Vec<u8> = vec![];
    let mut stack: Vec<&str> = vec![];
    if rng.chance(1, 8) {
        v.extend_from_slice(b"<frameset>");
    }
    for _ in 0..rng.range(3, 16) {
        match rng.below(12) {
            0..=3 => {
                let what = if stack.last().is_none_or(|t| *t == "template") && rng.chance(2, 3) { "select" } else { "template" };
                v.extend_from_slice(format!("<{what}>").as_bytes());
                stack.push(what);
            }
            4..=6 => {
                if let Some(t) = stack.pop() {
                    v.extend_from_slice(format!("</{t}>").as_bytes());
                }
            }
            7 => v.extend_from_slice(rng.pick(&["</select>", "</template>", "</frameset>"]).as_bytes()),
            8 => v.extend_from_slice(rng.pick(&["<input>", "<keygen>", "<textarea>x</textarea>", "<select>", "<hr>", "<td>"]).as_bytes()),
            9 | 10 => {
                let name = *rng.pick(TEXT_MODE_NAMES);
                v.extend_from_slice(format!("<{name}>").as_bytes());
                v.extend_from_slice(rng.pick(PAYLOAD).as_bytes());
                if rng.chance(4, 5) {
                    v.extend_from_slice(format!("</{name}>").as_bytes());
                }
            }
            _ => v.extend_from_slice(rng.pick(PAYLOAD).as_bytes()),
        }
    }
    v
}

/// Boundary values of lol-html's LocalNameHash (5 bits per character, 12 characters, '1' encoded as 0, letters 6..31):
/// a special tag name prefixed by one letter and a run of one extreme character, 12 / 13 / 14 characters in total.
/// None of these is a special name, so every one of them must be tokenized as an ordinary element.
pub fn hash_boundary_name(rng: &mut Rng) -> String {
    const SPECIAL: &[&str] = &["script", "style", "title", "textarea", "xmp", "iframe", "plaintext", "noembed", "select", "template", "svg", "math", "br", "p", "font", "frameset"];
    let x = *rng.pick(SPECIAL);
    let first = *rng.pick(&['a', 'j', 'k', 'l', 'p', 'z']);
    let fill = *rng.pick(&['1', '6', 'a', 'z']);
    let total = (*rng.pick(&[12usize, 13, 13, 14])).max(x.len() + 1);
    let mut s = String::new();
    s.push(first);
    for _ in 0..total - 1 - x.len() {
        s.push(fill);
    }
    s.push_str(x);
    s
}

fn push_tag(rng: &mut Rng, out: &mut Vec<u8>, kind: SoupKind) {
    let end = rng.chance(2, 5);
    out.push(b'<');
    if end {
        out.push(b'/');
    }
    let boundary;
    let name: &str = match rng.below(16) {
        0..=4 => *rng.pick(TEXT_MODE_NAMES),
        5 | 6 if kind == SoupKind::Any => *rng.pick(FOREIGN_NAMES),
        7 => {
            boundary = hash_boundary_name(rng);
            &boundary
        }
        _ => *rng.pick(HTML_NAMES),
    };
    if rng.chance(1, 6) {
        out.extend(name.to_ascii_uppercase().bytes());
    } else {
        out.extend(name.bytes());
    }
    let nattr = if end { rng.below(8) / 7 } else { rng.below(4) };
    for _ in 0..nattr {
        out.extend(rng.pick(ATTR_FRAGS).bytes());
    }
    match rng.below(12) {
        0 => out.extend(b"/>"),
        1 => out.extend(b" >"),
        2 => {} // unterminated
        _ => out.push(b'>'),
    }
}

/// adversarial tag soup, valid UTF-8 unless `raw_bytes`
pub fn soup(rng: &mut Rng, max_frags: usize, kind: SoupKind, raw_bytes: bool) -> Vec<u8> {
    let n = rng.range(1, max_frags.max(1));
    let mut out = Vec::new();
    for _ in 0..n {
        match rng.below(10) {
            0..=3 => push_tag(rng, &mut out, kind),
            4..=7 => {
                let f = *rng.pick(RAW_FRAGS);
                out.extend(f.bytes());
            }
            8 => {
                // text run
                let k = rng.range(1, 12);
                for _ in 0..k {
                    out.push(*rng.pick(b"abc xyz\n&;#-!=/'\""));
                }
            }
            _ => {
                if raw_bytes {
                    let k = rng.range(1, 4);
                    for _ in 0..k {
                        out.push(rng.below(256) as u8);
                    }
                } else {
                    out.extend(rng.pick(ATTR_FRAGS).bytes());
                }
            }
        }
    }
    if kind == SoupKind::HtmlOnly {
        strip_foreign(&mut out);
    }
    out
}

/// makes sure no `<svg` / `<math` start tag can occur (case-insensitively) by breaking the names
pub fn strip_foreign(v: &mut Vec<u8>) {
    let lower: Vec<u8> = v.iter().map(|b| b.to_ascii_lowercase()).collect();
    for pat in [&b"svg"[..], &b"math"[..]] {
        let mut i = 0;
        while i + pat.len() <= lower.len() {
            if &lower[i..i + pat.len()] == pat {
                v[i] = b'q';
            }
            i += 1;
        }
    }
}

/// mutate a byte string (bit flips, splices, truncation, duplication)
pub fn mutate(rng: &mut Rng, v: &mut Vec<u8>) {
    let k = rng.range(1, 4);
    for _ in 0..k {
        if v.is_empty() {
            v.push(b'<');
            continue;
        }
        match rng.below(6) {
            0 => {
                let i = rng.below(v.len());
                v[i] ^= 1 << rng.below(8);
            }
            1 => {
                let i = rng.below(v.len());
                v.remove(i);
            }
            2 => {
                let i = rng.below(v.len() + 1);
                let f = *rng.pick(RAW_FRAGS);
                let tail = v.split_off(i);
                v.extend(f.bytes());
                v.extend(tail);
            }
            3 => {
                let i = rng.below(v.len());
                v.truncate(i);
            }
            4 => {
                let i = rng.below(v.len());
                let j = rng.range(i, v.len());
                let seg: Vec<u8> = v[i..j].to_vec();
                let at = rng.below(v.len() + 1);
                let tail = v.split_off(at);
                v.extend(seg);
                v.extend(tail);
            }
            _ => {
                let i = rng.below(v.len());
                v[i] = *rng.pick(b"<>/=\"'- !&\0\r\n\t");
            }
        }
    }
}

// ------------------------------------------------------------------------------------------
// schedules
// ------------------------------------------------------------------------------------------

/// a random write schedule as sorted cut positions (duplicates = empty writes)
pub fn random_cuts(rng: &mut Rng, len: usize) -> Vec<usize> {
    match rng.below(8) {
        0 => vec![],
        1 => (1..len).collect(), // byte-wise
        2 => {
            let k = rng.range(1, 7);
            (1..len).filter(|i| i % k == 0).collect()
        }
        3 if len > 0 => {
            // one cut, plus an empty write around it
            let c = rng.below(len + 1);
            vec![c, c]
        }
        _ => {
            let k = rng.range(1, 5.min(len.max(1)));
            let mut v: Vec<usize> = (0..k).map(|_| rng.below(len + 1)).collect();
            if rng.chance(1, 6) {
                v.push(0);
            }
            if rng.chance(1, 6) {
                v.push(len);
            }
            v.sort_unstable();
            v
        }
    }
}

/// does the schedule cut strictly inside the input (not only at its ends)?
pub fn cuts_inside(cuts: &[usize], len: usize) -> bool {
    cuts.iter().any(|&c| c > 0 && c < len)
}

// ------------------------------------------------------------------------------------------
// encodings
// ------------------------------------------------------------------------------------------

pub fn ascii_compatible_encodings() -> Vec<&'static encoding_rs::Encoding> {
    lol_html::test_utils::ASCII_COMPATIBLE_ENCODINGS.to_vec()
}

/// Characters worth trying in an encoding (many are unmappable in any given one).
pub const CHAR_POOL: &[char] = &[
    'é', 'ß', 'ü', 'Ω', 'Я', 'ж', 'א', 'ش', 'ก', '中', '文', '日', '本', '語', '한', '글', 'あ', 'ア', '｡', '€', '“', '”',
    '\u{a0}', 'ı', 'Ž', 'ő', 'ț', '😀', '𝒳', '\u{feff}', '\u{80}', '\u{9f}', '\u{f7a0}', '\u{e5e5}', '¥', '‾', '\u{2022}',
];

/// characters from the pool that `enc` can encode (no NCR fallback)
pub fn mappable_chars(enc: &'static encoding_rs::Encoding) -> Vec<char> {
    CHAR_POOL
        .iter()
        .copied()
        .filter(|c| {
            let s = c.to_string();
            let (_, _, bad) = enc.encode(&s);
            !bad
        })
        .collect()
}

// ------------------------------------------------------------------------------------------
// observer handler sets
// ------------------------------------------------------------------------------------------

pub const OBS_SELECTORS: &[&str] = &[
    "*", "div", "p", "span", "a", "script", "title", "textarea", "style", "table", "td", "select", "svg", "math", "b",
    "[a]", "[a=b]", "[class~=x]", "#y", ".x", "p > span", "div span", "div > *", ":not(p)", "p:nth-child(2)",
    "span:first-child", "*:nth-of-type(2n+1)", "body *", "[a^=b]", "[data-x]", "nosuchtag", "div[nosuchattr]",
    "font", "mi", "desc", "foreignobject", "annotation-xml", "option", "template", "li:nth-child(odd)", "[a=B i]",
];

/// a random set of *observing* handlers
pub fn observer_config(rng: &mut Rng, cfg: &mut Config) {
    let n_el = match rng.below(6) {
        0 => 0,
        1 | 2 => 1,
        3 => 2,
        _ => rng.range(1, 4),
    };
    for _ in 0..n_el {
        let mut e = ElH { selector: (*rng.pick(OBS_SELECTORS)).to_string(), ..Default::default() };
        match rng.below(7) {
            0 => e.element = true,
            1 => e.text = true,
            2 => e.comments = true,
            3 => {
                e.element = true;
                e.end_tag = true;
            }
            4 => {
                e.element = true;
                e.text = true;
                e.comments = true;
                e.end_tag = true;
            }
            _ => {
                e.element = rng.bool();
                e.text = rng.bool();
                e.comments = rng.bool();
                e.end_tag = rng.bool();
                if !(e.element || e.text || e.comments || e.end_tag) {
                    e.element = true;
                }
            }
        }
        cfg.el.push(e);
    }
    let n_doc = match rng.below(5) {
        0 | 1 => 0,
        2 | 3 => 1,
        _ => 2,
    };
    for _ in 0..n_doc {
        let mut d = DocH { doctype: rng.bool(), comments: rng.bool(), text: rng.bool(), end: rng.bool(), ..Default::default() };
        if !(d.doctype || d.comments || d.text || d.end) {
            d.text = true;
        }
        cfg.doc.push(d);
    }
}
