#!/usr/bin/env python3
"""Regenerates /verif/MANIFEST.json from the table below (keeps it valid at all times)."""
import json, subprocess, os

V = os.path.dirname(os.path.dirname(os.path.abspath(__file__)))

# id -> (category, technique, level text, level note, design ref)
CHECKS = {
 "C01": ("exploration", "runtime monitor: byte-identity oracle over generated executions (encoding_rs whole-buffer oracle for captured text)",
         "Runs the real rewriter on millions of generated (input, encoding, observer set, strict flag, write schedule) executions and compares sink bytes with the input; every 40th document is run under all 1-cut schedules. Held on what was observed, not a proof.",
         "Trusts encoding_rs' whole-buffer decode/encode as the reference for captured text and lol-html's text source locations (checked by C14) for text-node boundaries.", "§5 C01"),
 "C02": ("exploration", "runtime monitor: relational oracle between write schedules (single write vs all 1-cuts / all 2-cuts / byte-wise / random cuts / rewrite_str)",
         "For each generated (input, encoding, handler set incl. offset-keyed mutating scripts) the single-write run is compared with every 1-cut schedule (inputs <= 300 bytes), every 2-cut schedule (<= 40 bytes), byte-wise and random schedules and rewrite_str: output bytes and the normalised event sequence must coincide; text-node protocol (exactly one last chunk) checked on every run. Exhaustive over cut positions for the documents generated, sampling over documents.",
         "Relational: a defect that is identical under all schedules is invisible here (covered by C03/C04/C05/C07). Locations are excluded (C14).", "§5 C02"),
 "C06": ("exploration", "runtime monitor: relational oracle between handler configurations H and H+O on the same input and schedule; hook events count scanner<->lexer switches",
         "Same input and schedule under H (observers; on a third of the structured documents H also rewrites: content removal, insertions, renaming) and under H plus extra observers (registered before or after): events delivered to H's handlers and sink bytes must be identical. Hook events prove the two runs really took different scan/lex paths.",
         "One accepted artefact, recognised exactly: strict-mode Ambiguity-vs-Ok when the input ends inside the offending tag (DESIGN.md §6).", "§5 C06"),
 "C09": ("exploration", "runtime monitor: relational oracle (fresh rewriter given the same prefix) + absolute bounds on held bytes from ground-truth token spans",
         "After every write of a schedule (every prefix for inputs <= 300 bytes) bytes_out is compared with a fresh rewriter that got the same prefix in one write; with no handlers the held bytes must be an unfinished tag through its name or <= 16 bytes of look-ahead; on generated documents with known token spans nothing is held at construct boundaries and never more than the unfinished token.",
         "Absolute 'through its name' bound asserted in the HTML namespace and, on generated documents with ground-truth namespaces, for svg / math start tags whose lexeme the tree-builder simulator does not need (DESIGN.md §6).", "§5 C09"),
 "C10": ("fault_enumeration", "runtime monitor: exhaustive memory-limit sweep with accounting hook (usage <= M), pending-bytes bound, monotonicity / determinism / additivity oracles; counting global allocator as heap-retention monitor",
         "For growth-shaped inputs x handler sets x schedules x preallocation sizes the limit M is swept over every value from 0 beyond the first success (geometric for large inputs): every run is checked for accounted usage <= M (hook) and pending <= M after each successful call and for MemoryLimitExceeded as the only failure; additivity (the smallest sufficient limit of open elements plus an unfinished buffered token is at least the sum of the parts: one budget) and heap retention (counting allocator: after streams of complete tokens with bounded depth the live heap may grow from n to 4n items by at most M unless a write fails) are checked on dedicated cases; every sweep for monotone success with identical output and for a minimum charge per open element.",
         "Only the accounting limit is exercised; real allocation failure aborts and cannot be injected. prealloc > limit only in the release flavour. The retention monitor is not a general heap bound (owned names etc. are deliberately unaccounted by lol-html).", "§5 C10"),
 "C11": ("fault_enumeration", "runtime monitor: failure injection at every handler invocation index and memory-limit sweeps; conservation / exactly-once checker over the recorded history with unique ids",
         "One run per failure index 1..N (all for N <= 40 quick / 120 thorough) and per memory limit value, under all flag combinations: sink ++ unwritten input (ids stripped) must equal the input, inserted ids must be a prefix of the complete run's ids followed by the bail-out markers, bail-out handlers exactly once in order, nothing flushed with the flag off or on ParsingAmbiguity. Hook events show which of the four failure sites fired.",
         "UTF-8 inputs when text handlers are present; removal configurations not generated (documented exception); one known finding (decoder-held bytes) matched by an exact bug model.", "§5 C11"),
 "C12": ("exploration", "runtime monitor: online automaton over the ordered log of sink calls and API results, over generated call histories with injected failures",
         "Every generated history (write*; end with empty writes / empty documents, observers and mutating scripts incl. empty strings, failures by handler index or memory limit, graceful flags, meta charset) is run through the sink automaton; use-after-error is probed with write(b\"\"), write(data) and end() (each must panic); without graceful flags the emitted bytes must be a prefix of the complete run's output.",
         "The automaton encodes the documented protocol only.", "§5 C12"),
 "C03": ("exploration", "runtime monitor: differential oracle against html5ever 0.39 (tokenizer driven by its tree builder) on generated tag soup and a foreign-content grammar",
         "Token streams of the strict run (capture set all and each single kind), the non-strict run and the public handlers are compared with html5ever's for adversarial HTML-namespace soup and for well-nested SVG/MathML documents under random write schedules; every strict-mode refusal is located (bytes emitted = offset of the offending tag) and must be justified by a syntactic select/template/frameset model or by html5ever's tree builder (probe element); a strict run that succeeds with a text-mode switching tag inside such a context is a violation too (guard-vocabulary soup and random walks).",
         "html5ever is the reference. One known finding (template insertion modes) is matched by an exact bug model; the EOF-inside-tag refusal artefact is recognised exactly (DESIGN.md §6).", "§5 C03"),
 "C04": ("exploration", "runtime monitor: reference model (RefTree + RefSelector evaluated on generator ground truth) vs the set of element-handler invocations",
         "Selector ASTs generated over the whole supported grammar are serialised to CSS for lol-html and evaluated by an independent matcher on the tree induced by explicit tags; the set of (selector, start tag) pairs must coincide, in-set and alone, under random write schedules.",
         "Known finding (flattened :not) matched by an exact bug model (reference with flattened negation).", "§5 C04"),
 "C05": ("exploration", "runtime monitor: reference scope model predicting the complete handler invocation log (sequence comparison)",
         "The recorded invocation sequence (kind, handler, token) of every combination of element/text/comments/end-tag/document handlers is compared with the sequence predicted from ground truth, RefTree and RefSelector: scope, exactly-once, document order, registration order, end-tag handler timing, end handler.",
         "Order among end-tag handlers of different elements closed by one end tag and among several end handlers is canonicalised (statement silent).", "§5 C05"),
 "C14": ("exploration", "runtime monitor: ground-truth byte ranges of generated documents (any encoding) vs every reported source location; self-consistency automaton on soup",
         "Every element / end tag / comment / doctype / attribute name and value location is compared with the generator's ground truth (RefAttr for attributes) under random schedules, 36 encodings and handler sets that rewrite earlier content and modify every token several times (an engine monitor re-reads each location after the handler's own edits: token locations must not move, set attributes report None, untouched ones keep theirs); text chunk ranges must be contiguous and cover their node; locations never overlap or go backwards.",
         "Ground truth validated against html5ever by `vcheck selftest` / C03 domain B.", "§5 C14"),
 "C16": ("exploration", "runtime monitor: RefAttr (independent WHATWG tag tokenizer) + RefTree + namespace ground truth vs every Element getter; list model for reads after edits",
         "All getters of all elements of generated documents (HTML/SVG/MathML context, any encoding, cuts at every byte of a tag) are compared with an independent attribute parser over the tag's bytes decoded by encoding_rs, with case-variant lookups and with a list model of set/remove/rename edits.",
         "RefAttr validated against html5ever on UTF-8.", "§5 C16"),
 "C07": ("exploration", "runtime monitor: reference editor (RefEditor) applied to generator ground truth vs sink bytes; semantic comparison of re-serialised tags via RefAttr",
         "Random op scripts addressed by token offset (all element / start tag / end tag / comment / text / doctype / document-end operations, both content types, streaming variants, several handlers per token, nested and unclosed elements, void and foreign self-closing, 36 encodings, random schedules) are applied by the real rewriter and by an independent editor over the ground-truth token list; outputs must coincide.",
         "Undocumented op combinations are not generated (DESIGN.md Appendix A); one known finding (end-side edits on implicitly closed elements) matched by an exact bug model.", "§5 C07"),
 "C08": ("exploration", "runtime monitor: re-parse oracle - the output is re-tokenised by lol-html and by html5ever and compared with the original token structure plus the intended insertion",
         "Adversarial strings through every insertion API in every text context and encoding: both tokenizers must agree on the output, the markup skeleton must be unchanged apart from the intended change, inserted text must read back verbatim where character references are decoded, rejected inputs must leave the output unchanged.",
         "Names that legitimately change the content model are not judged (documented caller obligation).", "§5 C08"),
 "C13": ("exploration", "runtime monitor: encoding_rs whole-buffer decode / encode oracle over generated documents in all 36 encodings; ordering check of set_encoding in the sink log",
         "Text and comment strings read by handlers are compared with whole-buffer decoding of the ground-truth bytes (malformed sequences, characters split by writes and by the 1024-byte decoder buffer); inserted content with unmappable characters is compared with encoding_rs encode; meta-charset documents check which side of the declaration is decoded how, the number of switches and the position of the sink notification; AsciiCompatibleEncoding::new is checked exhaustively over the 40 encodings.",
         "encoding_rs is the reference for each encoding.", "§5 C13"),
 "C15": ("exploration", "runtime monitor: child-process fuzz workers (process status as oracle), debug-assertion + overflow-check build, release build and AddressSanitizer build; thread-CPU-time linearity test",
         "Random / grammar-based / mutated inputs x settings matrix x arbitrary API argument strings x selector strings run in child processes so that panics, aborts, stack exhaustion and sanitizer reports are all observed; pathological sizes run one per process with a CPU-time linearity test; a dead worker's batch is re-run case by case to name the culprit.",
         "Three known findings (stack exhaustion on pathologically deep selector strings) keyed by the kind of selector.", "§5 C15"),
 "C17": ("exploration", "differential runtime monitor (Rust-API driver vs C-API driver on mirrored scripts) executed under AddressSanitizer+LeakSanitizer, Miri and valgrind memcheck",
         "The same generated script is interpreted through the Rust API and exclusively through the exported extern \"C\" entry points with extern \"C\" callbacks; histories (sink bytes, accessor values, error outcomes) must be equal; the header's failure classes must return error codes and set the thread-local last error; create/use/free orders vary; the C-side run is repeated under ASan/LSan (quick), Miri (16 processes, quick) and valgrind (thorough), any report fails the check.",
         "C symbols are called from Rust through the rlib (no C compiler in the loop: a changed exported signature is a harness build error, exit 2, not a violation); Miri's aliasing model is off because of servo_arc (third party).", "§5 C17"),
 "C18": ("exploration", "runtime monitor: sequential-vs-concurrent-vs-migrating differential with an in-flight counter, fresh-thread probe rewrites after every run and case-twin configurations, executed natively, under ThreadSanitizer and (thorough) under Miri's data-race detector",
         "Groups of rewrites are run sequentially twice, then concurrently on barrier-released threads with random yields, then with a send::HtmlRewriter moved to a new thread for every call; results must be identical; concurrent selector parsing and a barrier-choreographed C last-error ping-pong check isolation; ThreadSanitizer must stay silent.",
         "A global protected by a lock that does not change results is invisible to this technique.", "§5 C18"),
}

NOT_YET = {
}

def main():
    hooks_commits = subprocess.run(["git", "-C", "/repo", "log", "--format=%H %s", "--grep=^verif hooks"], capture_output=True, text=True).stdout.strip().splitlines()
    props = [json.loads(l) for l in open(os.path.join(V, "properties.jsonl"))]
    checks = []
    na = []
    for p in props:
        pid = p["id"]
        if pid in CHECKS:
            cat, tech, text, note, ref = CHECKS[pid]
            checks.append({
                "property_id": pid,
                "quick_cmd": f"./check {pid} --tier quick",
                "thorough_cmd": f"./check {pid} --tier thorough",
                "evidence_file": f"/verif/evidence/{pid}.json",
                "replay_cmd_template": f"./check {pid} --replay {{path}}",
                "engine": "vharness",
                "level_claimed": {"category": cat, "text": text, "design_ref": ref},
                "level_note": note,
                "technique": tech,
            })
        else:
            na.append({"property_id": pid, "reason": NOT_YET.get(pid, "monitor not built yet (work in progress; see DESIGN.md §5 for the plan)")})
    m = {
        "version": 1,
        "setup_cmd": "./check --setup",
        "hooks": {
            "guard": "_verif_hooks",
            "enable": "cargo feature `_verif_hooks` of lol_html, switched on by the harness crate's path dependency (harness/Cargo.toml)",
            "baseline_off_cmd": "cd /repo && cargo test --workspace --no-fail-fast --offline",
            "source_commits": [c.split()[0] for c in hooks_commits],
            "add_only": True,
        },
        "engines": [{"name": "vharness", "path": "/verif/harness", "serves_properties": [c["property_id"] for c in checks],
                     "kind_free_text": "Rust harness linking the real lol_html (+ C API) from /repo's working tree; generators, recorder handlers, reference models, differential oracles (html5ever, encoding_rs), sanitizer flavours driven by ./check"}],
        "checks": checks,
        "not_applicable": na,
        "notes": "Runtime monitoring only: every verdict is 'held on K observed executions' with the counts in the evidence file. Known genuine defects are listed in known_findings.json.",
    }
    json.dump(m, open(os.path.join(V, "MANIFEST.json"), "w"), indent=1)
    print("wrote MANIFEST.json with", len(checks), "checks,", len(na), "not_applicable")

main()
