#!/usr/bin/env python3
"""Regenerates /verif/MANIFEST.json from the table below (keeps it valid at all times)."""
import json, subprocess, os

V = os.path.dirname(os.path.dirname(os.path.abspath(__file__)))

# id -> (category, technique, level text, level note, design ref)
CHECKS = {
 "C01": ("exploration", "runtime monitor: byte-identity oracle over generated executions (encoding_rs whole-buffer oracle for captured text)",
         "Runs the real rewriter on millions of generated (input, encoding, observer set, strict flag, write schedule) executions and compares sink bytes with the input; every 40th document is run under all 1-cut schedules. Held on what was observed, not a proof.",
         "Trusts encoding_rs' whole-buffer decode/encode as the reference for captured text and lol-html's text source locations (checked by C14) for text-node boundaries.", "§5 C01"),
}

NOT_YET = {
}

def main():
    hooks_commits = subprocess.run(["git", "-C", "/repo", "log", "--format=%H %s", "--grep=^verif hooks"], capture_output=True, text=True).stdout.strip().splitlines()
    props = [json.loads(l) for l in open(os.path.join(V, "properties.jsonl"))]
    checks = []
    na = []
    for p in props:
        pid = p["id"]
        if pid in CHECKS:
            cat, tech, text, note, ref = CHECKS[pid]
            checks.append({
                "property_id": pid,
                "quick_cmd": f"./check {pid} --tier quick",
                "thorough_cmd": f"./check {pid} --tier thorough",
                "evidence_file": f"/verif/evidence/{pid}.json",
                "replay_cmd_template": f"./check {pid} --replay {{path}}",
                "engine": "vharness",
                "level_claimed": {"category": cat, "text": text, "design_ref": ref},
                "level_note": note,
                "technique": tech,
            })
        else:
            na.append({"property_id": pid, "reason": NOT_YET.get(pid, "monitor not built yet (work in progress; see DESIGN.md §5 for the plan)")})
    m = {
        "version": 1,
        "setup_cmd": "./check --setup",
        "hooks": {
            "guard": "_verif_hooks",
            "enable": "cargo feature `_verif_hooks` of lol_html, switched on by the harness crate's path dependency (harness/Cargo.toml)",
            "baseline_off_cmd": "cd /repo && cargo test --workspace --no-fail-fast --offline",
            "source_commits": [c.split()[0] for c in hooks_commits],
            "add_only": True,
        },
        "engines": [{"name": "vharness", "path": "/verif/harness", "serves_properties": [c["property_id"] for c in checks],
                     "kind_free_text": "Rust harness linking the real lol_html (+ C API) from /repo's working tree; generators, recorder handlers, reference models, differential oracles (html5ever, encoding_rs), sanitizer flavours driven by ./check"}],
        "checks": checks,
        "not_applicable": na,
        "notes": "Runtime monitoring only: every verdict is 'held on K observed executions' with the counts in the evidence file. Known genuine defects are listed in known_findings.json.",
    }
    json.dump(m, open(os.path.join(V, "MANIFEST.json"), "w"), indent=1)
    print("wrote MANIFEST.json with", len(checks), "checks,", len(na), "not_applicable")

main()
