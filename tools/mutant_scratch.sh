#!/bin/bash
# usage: tools/mutant_scratch.sh <patch.diff> <Cxx> [<Cxx> ...]  — like mutant.sh but on a scratch worktree + scratch harness
# (leaves /repo untouched, so it can be used while other runs use /repo). Keeps /tmp/ms between calls for build caching;
# remove it with `tools/mutant_scratch.sh --clean`.
set -u
MS=${MS:-/tmp/ms}
if [ "$1" = "--clean" ]; then git -C /repo worktree remove --force $MS/repo 2>/dev/null; rm -rf $MS; git -C /repo worktree prune; exit 0; fi
patch="$1"; shift
if [ ! -d $MS/repo ]; then mkdir -p $MS; git -C /repo worktree prune; git -C /repo worktree add -q --detach $MS/repo HEAD || exit 2; fi
( cd $MS/repo && git checkout -q --detach $(git -C /repo rev-parse HEAD) && git checkout -q -- . )
rm -rf $MS/harness; cp -r /verif/harness $MS/harness; rm -rf $MS/harness/target
sed -i "s|path = \"/repo\"|path = \"$MS/repo\"|; s|path = \"/repo/c-api\"|path = \"$MS/repo/c-api\"|" $MS/harness/Cargo.toml
mkdir -p $MS/out; cp /verif/known_findings.json $MS/out/
( cd $MS/repo && git apply "$patch" ) || { echo "patch does not apply"; exit 2; }
export VERIF_HARNESS_DIR=$MS/harness VERIF_BUILD_DIR=$MS/build VERIF_OUT_DIR=$MS/out
for id in "$@"; do
  out=$(VERIF_SEED=${VERIF_SEED:-1} /verif/check "$id" --tier ${TIER:-quick} ${FLAVOUR:+--flavour $FLAVOUR} 2>&1); rc=$?
  if echo "$out" | grep -q "^VIOLATION property=$id"; then
     echo "$id DETECTED rc=$rc"; echo "$out" | grep -A7 -m1 '^--- ' | head -9 | sed 's/^/      /' | cut -c1-300
  else
     echo "$id MISSED rc=$rc"; echo "$out" | tail -5 | sed 's/^/      /' | cut -c1-300
  fi
done
( cd $MS/repo && git checkout -q -- . )
