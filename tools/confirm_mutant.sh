#!/bin/bash
# usage: tools/confirm_mutant.sh <Cxx> <i>    — re-verifies an agent-made mutant in its scratch worktree and files it under /verif/seeded/
set -u
id="$1"; i="$2"
B=${MUTBASE:-/tmp/mut}; wt=$B/$id; out=$B/$id-out
cd "$wt" || exit 2
git checkout -q -- . ; rm -f tests/m${i}_demo.rs
log=$(mktemp)
ok=1
# 1. demo passes on unmodified code
cp "$out/m${i}_demo.rs" tests/m${i}_demo.rs
if cargo test --offline --test m${i}_demo >"$log" 2>&1; then echo "demo passes without the change: yes"; else echo "demo passes without the change: NO"; ok=0; tail -5 "$log"; fi
# 2. apply, build both ways, full suite, demo fails
if git apply "$out/m${i}.diff"; then :; else echo "patch does not apply"; exit 2; fi
if cargo build --offline --features _integration_test,_verif_hooks >"$log" 2>&1; then echo "builds with hooks: yes"; else echo "builds with hooks: NO"; ok=0; fi
rm -f tests/m${i}_demo.rs
res=$(cargo test --offline 2>&1 | grep -E "^test result" | head -1)
echo "existing suite with the change: $res"
echo "$res" | grep -q "182 passed; 0 failed" || ok=0
cp "$out/m${i}_demo.rs" tests/m${i}_demo.rs
if cargo test --offline --test m${i}_demo >"$log" 2>&1; then echo "demo fails with the change: NO (it passed)"; ok=0; else echo "demo fails with the change: yes"; fi
rm -f tests/m${i}_demo.rs; git checkout -q -- .
if [ $ok = 1 ]; then
  d=/verif/seeded/$id-m$i; mkdir -p $d
  cp "$out/m${i}.diff" $d/patch.diff; cp "$out/m${i}_demo.rs" $d/demo.rs; cp "$out/m${i}_notes.md" $d/notes.md
  echo "CONFIRMED -> $d"
else
  echo "NOT CONFIRMED"
fi
rm -f "$log"
