#!/bin/bash
# like confirm_mutant.sh but the demonstration is a separate cargo package in <out>/m<i>_demo/
set -u
id="$1"; i="$2"
B=${MUTBASE:-/tmp/mut}; wt=$B/$id; out=$B/$id-out; demo=$out/m${i}_demo
cd "$wt" || exit 2
git checkout -q -- .
ok=1
run_demo() { (cd "$demo" && CARGO_TARGET_DIR=$B/$id-demo-target cargo test --offline 2>&1 | tail -15); }
o=$(run_demo); if echo "$o" | grep -q "test result: ok" && ! echo "$o" | grep -q "FAILED\|failed;  *[1-9]"; then echo "demo passes without the change: yes"; else echo "demo passes without the change: NO"; echo "$o" | tail -5; ok=0; fi
git apply "$out/m${i}.diff" || { echo "patch does not apply"; exit 2; }
if cargo build --offline --features _integration_test,_verif_hooks >/dev/null 2>&1; then echo "builds with hooks: yes"; else echo "builds with hooks: NO"; ok=0; fi
res=$(cargo test --offline 2>&1 | grep -E "^test result" | head -1); echo "existing suite with the change: $res"
echo "$res" | grep -q "182 passed; 0 failed" || ok=0
o=$(run_demo); if echo "$o" | grep -q "FAILED\|panicked\|failed"; then echo "demo fails with the change: yes"; else echo "demo fails with the change: NO"; ok=0; fi
git checkout -q -- .
if [ $ok = 1 ]; then
  d=/verif/seeded/$id-m$i; mkdir -p $d
  cp "$out/m${i}.diff" $d/patch.diff; cp "$out/m${i}_notes.md" $d/notes.md
  mkdir -p $d/demo; cp -r $demo/Cargo.toml $demo/src $d/demo/ 2>/dev/null; [ -d $demo/tests ] && cp -r $demo/tests $d/demo/
  [ -f "$out/m${i}_demo.rs" ] && cp "$out/m${i}_demo.rs" $d/demo.rs
  echo "CONFIRMED -> $d"
else echo "NOT CONFIRMED"; fi
rm -rf $B/$id-demo-target
