#!/bin/bash
# usage: tools/round3.sh <Cxx> <slot>   — confirm the round-3 change of <Cxx> in its worktree, then run the owning quick check
# against it on the scratch copy /tmp/ms<slot> (tools/mutant_scratch.sh). Output: /tmp/mut/<Cxx>-out/round3.log
id="$1"; slot="${2:-0}"; i=${IDX:-5}
log=/tmp/mut/$id-out/round$i.log
{
if [ -d /tmp/mut/$id-out/m${i}_demo ]; then /verif/tools/confirm_mutant_pkg.sh $id $i; else /verif/tools/confirm_mutant.sh $id $i; fi
if [ -f /verif/seeded/$id-m$i/patch.diff ]; then
  MS=/tmp/ms$slot /verif/tools/mutant_scratch.sh /verif/seeded/$id-m$i/patch.diff $id
fi
} > $log 2>&1
tail -30 $log
