#!/usr/bin/env python3
"""How robustly does the *owning* quick check catch each seeded change?  (validation aid, DESIGN.md §10)

usage: tools/robust.py <out.tsv> [--workers W] [--seeds 11,12,13] [dirs...]

For every /verif/seeded/<Cxx>-*/ the patch is applied to a scratch worktree (/tmp/rb/<k>/repo, never /repo), a scratch
copy of the harness is built against it, and the quick dbg check of property Cxx is run once per seed at full scale.
Writes `<dir>\t<detections>/<seeds>\t<keys>` per change.
"""
import sys, os, re, json, subprocess, threading, shutil, glob

RB = '/tmp/rb'
ARGS = sys.argv[1:]
out_path = ARGS[0]
def opt(name, default):
    return ARGS[ARGS.index(name) + 1] if name in ARGS else default
W = int(opt('--workers', '3'))
SEEDS = [int(x) for x in opt('--seeds', '11,12,13').split(',')]
dirs = [a for a in ARGS[1:] if a.startswith('/')] or sorted(glob.glob('/verif/seeded/*/'))
lock = threading.Lock()

def sh(cmd, cwd, env=None, timeout=1800):
    e = dict(os.environ); e['CARGO_NET_OFFLINE'] = 'true'
    if env: e.update(env)
    try:
        r = subprocess.run(cmd, cwd=cwd, env=e, shell=True, stdout=subprocess.PIPE, stderr=subprocess.STDOUT, timeout=timeout)
        return r.returncode, r.stdout.decode('utf-8', 'replace')
    except subprocess.TimeoutExpired:
        return 124, 'TIMEOUT'

def setup(k):
    d = f'{RB}/{k}'
    os.makedirs(d, exist_ok=True)
    if not os.path.isdir(f'{d}/repo'):
        with lock:
            sh(f'git -C /repo worktree prune; git -C /repo worktree add -q --detach {d}/repo HEAD', '/')
    else:
        sh('git checkout -q --detach $(git -C /repo rev-parse HEAD) && git checkout -q -- .', f'{d}/repo')
    shutil.rmtree(f'{d}/harness', ignore_errors=True)
    shutil.copytree('/verif/harness', f'{d}/harness', ignore=shutil.ignore_patterns('target'))
    t = open(f'{d}/harness/Cargo.toml').read().replace('path = "/repo"', f'path = "{d}/repo"').replace('path = "/repo/c-api"', f'path = "{d}/repo/c-api"')
    open(f'{d}/harness/Cargo.toml', 'w').write(t)
    os.makedirs(f'{d}/verif', exist_ok=True)
    shutil.copy('/verif/known_findings.json', f'{d}/verif/')
    return d

q = list(dirs)
def worker(k):
    d = setup(k)
    while True:
        with lock:
            if not q:
                break
            sd = q.pop(0)
        name = os.path.basename(sd.rstrip('/'))
        pid = name.split('-')[0]
        sh('git checkout -q -- .', f'{d}/repo')
        rc, o = sh(f'git apply {sd}/patch.diff', f'{d}/repo')
        if rc != 0:
            line = f'{name}\tAPPLY-FAILED\t'
        else:
            rc, o = sh('cargo build --offline 2>&1 | tail -5', f'{d}/harness', {'CARGO_TARGET_DIR': f'{d}/target'})
            if rc != 0 or 'could not compile' in o:
                line = f'{name}\tBUILD-FAILED\t'
            else:
                hits, keys = 0, []
                for s in SEEDS:
                    extra = '' if pid in ('C15', 'C17', 'C18') else '--shards 5'
                    rc, o = sh(f'{d}/target/debug/vcheck {pid} --tier quick --seed {s} --flavour dbg --no-min {extra} --verif-dir {d}/verif --evidence {d}/verif/ev.json', f'{d}/harness', None, 1800)
                    if re.search(r'^VIOLATION property=', o, re.M):
                        hits += 1
                        m = re.search(r'^--- \S+ violated: key=(\S+)', o, re.M)
                        if m and m.group(1) not in keys:
                            keys.append(m.group(1))
                    elif rc not in (0, 1, 2):
                        hits += 1
                        keys.append(f'checker-died-rc{rc}')
                line = f'{name}\t{hits}/{len(SEEDS)}\t{",".join(keys)}'
        with lock:
            with open(out_path, 'a') as f:
                f.write(line + '\n')
            print(line, flush=True)
    sh('git checkout -q -- .', f'{d}/repo')

open(out_path, 'w').close()
ths = [threading.Thread(target=worker, args=(k,)) for k in range(W)]
for t in ths: t.start()
for t in ths: t.join()
if '--keep' not in ARGS:
    for k in range(W):
        sh(f'git -C /repo worktree remove --force {RB}/{k}/repo', '/')
    shutil.rmtree(RB, ignore_errors=True)
    sh('git -C /repo worktree prune', '/')
print('DONE')
