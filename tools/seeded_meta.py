#!/usr/bin/env python3
"""Writes meta.json into every /verif/seeded/<id>-m<k>/ and prints the markdown table for DESIGN.md §10.
usage: tools/seeded_meta.py [matrix.tsv] [robust.tsv]"""
import json, os, re, sys
V = os.path.dirname(os.path.dirname(os.path.abspath(__file__)))
matrix = {}
if len(sys.argv) > 1 and os.path.exists(sys.argv[1]):
    for line in open(sys.argv[1]):
        f = line.rstrip("\n").split("\t")
        if f[0] and f[0] != "DONE":
            matrix[f[0]] = f[1:]
# detections observed while running tools/mutant.sh by hand (owning check, quick tier, seed 1)
robust = {}
if len(sys.argv) > 2 and os.path.exists(sys.argv[2]):
    for line in open(sys.argv[2]):
        f = line.rstrip("\n").split("\t")
        if len(f) >= 2 and f[0] != "DONE":
            robust[f[0]] = (f[1], f[2] if len(f) > 2 else "")
# rounds 3 and 4 (m5, m6): no full matrix run (the machine was shared with the sub-agents); what is recorded is the owning
# quick check (dbg flavour, seed 1, scratch copy: tools/round3.sh) plus the other checks that were tried against the change
manual = {
    "C01-m5": ["C01 (after the long-token documents were added)"],
    "C02-m5": ["C02"], "C04-m5": ["C04"], "C05-m5": ["C05"], "C07-m5": ["C07"], "C10-m5": ["C10"], "C12-m5": ["C12"], "C14-m5": ["C14"], "C16-m5": ["C16"],
    "C03-m5": ["C03 (after the hash-boundary names were added to the soup)"],
    "C06-m5": ["C05", "C07", "C06 (after H was allowed to rewrite)"],
    "C08-m5": ["C07", "C08 (after the self-closing / unquoted templates were added)"],
    "C09-m5": ["C09 (after the name bound was extended to svg / math islands)"],
    "C11-m5": ["C10", "C11 (after the error-kind rule was added)"],
    "C13-m5": ["C13 (after the inserting run was added to the meta cases)"],
    "C15-m5": ["C15 (after the write_utf8_chunk histories were added)"],
    "C17-m5": ["C17 (dbg flavour; after both drivers stream byte pieces through write_utf8_chunk)"],
    "C18-m5": ["C04", "C18 (dbg flavour; after the many-distinct-names documents were added)"],
    "C01-m6": ["C01"], "C03-m6": ["C03"], "C06-m6": ["C06"], "C08-m6": ["C08"], "C09-m6": ["C09"], "C11-m6": ["C11"], "C13-m6": ["C13"],
    "C17-m6": ["C17 (dbg flavour)"],
    "C15-m6": ["C15"],
    "C18-m6": ["C18 (dbg flavour; after the long legacy-encoded text runs were added)"],
}
if os.path.exists(os.path.join(V, "seeded", "manual.json")):
    manual.update(json.load(open(os.path.join(V, "seeded", "manual.json"))))
# detections that need another flavour / a later generator than the matrix run used
extra = {
    "C17-m2": ["C17 (asan flavour only: heap-use-after-free report; the dbg differential does not see it)"],
    "C09-rev-f5e47e1": ["C09 (after the escaped-script / end-tag-name soup fragments were added; missed by the generator before that)"],
    "C01-m3": ["C01 (after declared-encoding documents were added)"],
    "C13-m4": ["C13 (after lookups by decoded attribute names were added)"],
    "C03-m3": ["C03"],
}
rows = []
for d in sorted(os.listdir(os.path.join(V, "seeded"))):
    p = os.path.join(V, "seeded", d)
    if not os.path.isdir(p):
        continue
    prop = d.split("-")[0]
    notes = open(os.path.join(p, "notes.md")).read() if os.path.exists(os.path.join(p, "notes.md")) else ""
    diff = open(os.path.join(p, "patch.diff")).read()
    files = sorted(set(re.findall(r"^\+\+\+ b/(\S+)", diff, re.M)))
    # first paragraph-ish of the notes as description
    lines = [l.strip() for l in notes.splitlines() if l.strip() and not l.startswith("#")]
    what = " ".join(lines[:3])[:600]
    needs = ""
    m = re.search(r"(?is)(needs?[^\n]*manifest[^\n]*|\*\*needed[^\n]*|what it needs[^\n]*|it needs[^\n]*|trigger[^\n]*)(.*?)(\n\n|\Z)", notes)
    if m:
        needs = (m.group(1) + m.group(2)).strip().replace("\n", " ")[:600]
    detected = matrix.get(d, manual.get(d, [prop]))
    if d in extra and not any(x.startswith(prop) for x in detected):
        detected = detected + extra[d]
    rev = "-rev-" in d
    meta = {
        "breaks_property": prop,
        "source": "written by an independent sub-agent given only the property text and a scratch worktree" if "-rev-" not in d else "reversion of one of my own fix: commits",
        "files_changed": files,
        "what": what,
        "needs_to_manifest": needs,
        "verified": "reverse patch of the fix commit applies to HEAD, builds, and `cargo test --offline` still reports 182 passed / 0 failed (the defect predates the pinned suite)" if rev else "tools/confirm_mutant.sh: demo passes on the unmodified worktree; with the patch it builds (also with --features _integration_test,_verif_hooks), `cargo test --offline` still reports 182 passed / 0 failed, and the demo fails",
        "ran_against_checks": ("tools/round3.sh: owning quick check " + prop + " (dbg flavour, seed 1) on a scratch copy, re-run after each strengthening; other checks as listed" if re.search(r"-m[56]$", d) else "tools/mutant.sh <patch> " + prop + " (quick tier, seed 1) and tools/matrix.sh (dbg flavour, all checks)"),
        "detected_by": detected,
        "owning_check_at_seeds_11_12_13": {"detections": robust[d][0], "violation_keys": robust[d][1]} if d in robust else None,
    }
    json.dump(meta, open(os.path.join(p, "meta.json"), "w"), indent=1)
    short = lines[0][:160] if lines else ""
    rows.append((d, ", ".join(files), ", ".join(detected) if detected else "**none**", robust.get(d, ("–", ""))[0]))
print("| seeded change | files | caught by (matrix: quick tier, dbg flavour, seed 1, half volume; notes where a later strengthening or another flavour is needed) | owning check, full volume, seeds 11 / 12 / 13 |")
print("|---|---|---|---|")
for r in rows:
    print(f"| {r[0]} | {r[1]} | {r[2]} | {r[3]} |")
