#!/bin/bash
# usage: tools/runall.sh [seed ...]   — runs every registered quick check at the given seeds, prints one line per run
cd /verif
ids=$(python3 -c "import json;print(' '.join(c['property_id'] for c in json.load(open('MANIFEST.json'))['checks']))")
for seed in "${@:-1}"; do
 for id in ${IDS:-$ids}; do
  t0=$(date +%s)
  out=$(VERIF_SEED=$seed ./check $id --tier ${TIER:-quick} 2>&1); rc=$?
  t1=$(date +%s)
  echo "seed=$seed $id rc=$rc $((t1-t0))s $(echo "$out" | grep -c '^VIOLATION') violations $(echo "$out" | grep -c '^KNOWN-FINDING') known $(echo "$out" | grep -E 'HARNESS-ERROR|INCONCLUSIVE' | head -2 | tr '\n' ' ')"
  if [ $rc != 0 ]; then echo "$out" | grep -A8 '^--- ' | head -30 | cut -c1-400; fi
 done
done
