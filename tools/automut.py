#!/usr/bin/env python3
"""Automatic mutation campaign (validation of the monitors, DESIGN.md §10).

usage: tools/automut.py <results.jsonl> [--n N] [--workers W] [--seed S] [--files glob ...] [--keep]

Generates line-level mutants of lol-html (relational / boolean / arithmetic operator swaps, statement
deletion, swapping two adjacent statements, dropping one action of a state-machine arm), and for each:
  1. applies it in a scratch worktree under /tmp/am/<k>/repo (never /repo),
  2. builds and runs the repository's own test suite (`cargo test --offline --lib --tests`);
     not compiling -> "stillborn", a failing test -> "killed-by-tests" (uninteresting: the brief asks for
     changes the existing tests do not catch),
  3. for survivors builds a scratch copy of the harness against the mutated tree and runs the quick dbg
     checks of the properties anchored in the mutated file (+ C01, C02) until one reports a VIOLATION.
Every verdict is appended to <results.jsonl>; undetected survivors carry their diff so that they can be triaged
(equivalent mutant or gap in a check).  Nothing is ever written to /repo, /verif/evidence or known_findings.json.
"""
import sys, os, re, json, subprocess, random, threading, glob, fnmatch, shutil, time

AM = '/tmp/am'
REPO = '/repo'
ARGS = sys.argv[1:]
out_path = ARGS[0]
def opt(name, default):
    if name in ARGS:
        return ARGS[ARGS.index(name) + 1]
    return default
N = int(opt('--n', '100'))
W = int(opt('--workers', '4'))
SEED = int(opt('--seed', '1'))
file_globs = []
if '--files' in ARGS:
    i = ARGS.index('--files') + 1
    while i < len(ARGS) and not ARGS[i].startswith('--'):
        file_globs.append(ARGS[i]); i += 1
ONLY_OPS = opt('--ops', None)

# ---------------------------------------------------------------- anchors: file -> properties
file_props = {}
for l in open('/verif/properties.jsonl'):
    p = json.loads(l)
    for f in p['anchors']['files']:
        file_props.setdefault(f, []).append(p['id'])

def props_for(path):
    ids = []
    for pat, ps in file_props.items():
        if pat == 'src/**/*.rs':
            continue
        if fnmatch.fnmatch(path, pat.replace('**/', '*')) or path == pat:
            ids += ps
    if path.startswith('c-api/'):
        ids += ['C17', 'C18']
    # anchored properties first, then every other dbg-capable check (an evaluator runs them all); C17/C18 only where relevant
    anchored = sorted(set(ids))
    rest = [i for i in ['C02', 'C01', 'C09', 'C06', 'C03', 'C14', 'C16', 'C05', 'C04', 'C07', 'C13', 'C08', 'C12', 'C11', 'C10', 'C15'] if i not in anchored]
    if path.startswith('c-api/'):
        rest = [i for i in rest if i in ('C02', 'C01')]
    order = [i for i in anchored if i not in ('C15', 'C17', 'C18')] + rest + [i for i in anchored if i in ('C15', 'C17', 'C18')]
    seen = []
    for i in order:
        if i not in seen:
            seen.append(i)
    return seen

# ---------------------------------------------------------------- mutant generation
def candidate_files():
    fs = []
    for root in ('src', 'c-api/src'):
        for f in glob.glob(f'{REPO}/{root}/**/*.rs', recursive=True):
            rel = os.path.relpath(f, REPO)
            if rel.endswith('tests.rs') or '/tests/' in rel or rel == 'src/verif.rs' or 'testing_utils' in rel:
                continue
            if file_globs and not any(fnmatch.fnmatch(rel, g) for g in file_globs):
                continue
            fs.append(rel)
    return sorted(fs)

SKIP_LINE = re.compile(r'^\s*(//|#\[|use |pub use |mod |pub mod |debug_assert|trace!|assert|#!\[|\*|/\*|extern crate)')
REL = [(' <= ', ' < '), (' >= ', ' > '), (' < ', ' <= '), (' > ', ' >= '), (' == ', ' != '), (' != ', ' == ')]
BOOL = [(' && ', ' || '), (' || ', ' && ')]
ARITH = [(' + 1', ''), (' - 1', ''), (' + ', ' - '), (' - ', ' + '), ('+= ', '-= '), ('-= ', '+= ')]
CALL_STMT = re.compile(r'^\s*(self\.|[a-z_][\w]*\.|[a-z_][\w:]*\()[^=]*\)\??;\s*$')
ASSIGN_STMT = re.compile(r'^\s*(self\.[\w.]+|\*?[a-z_][\w.\[\]]*) (=|\+=|-=|\|=) [^;]*;\s*$')
DSL_ARM = re.compile(r'\(\s*([^()]*;[^()]*)\)')

def gen_for_file(rel):
    lines = open(f'{REPO}/{rel}').read().split('\n')
    # stop at the unit-test module
    end = len(lines)
    for i, l in enumerate(lines):
        if l.strip().startswith('#[cfg(test)]') and i + 1 < len(lines) and 'mod ' in lines[i + 1]:
            end = i
            break
    muts = []
    in_verif = False
    for i in range(end):
        l = lines[i]
        if '_verif_hooks' in l:
            in_verif = True  # skip the line following a cfg(feature = "_verif_hooks") attribute too
            continue
        if in_verif:
            in_verif = False
            continue
        if SKIP_LINE.match(l) or not l.strip():
            continue
        code = l.split('//')[0]
        for a, b in REL:
            if a in code and '->' not in code.split(a)[0][-3:]:
                muts.append((rel, i, 'rel', l.replace(a, b, 1)))
        for a, b in BOOL:
            if a in code:
                muts.append((rel, i, 'bool', l.replace(a, b, 1)))
        for a, b in ARITH:
            if a in code and '"' not in code:
                muts.append((rel, i, 'arith', l.replace(a, b, 1)))
        for a, b in ((' true', ' false'), (' false', ' true'), ('(true', '(false'), ('(false', '(true')):
            if re.search(re.escape(a) + r'\b', code):
                muts.append((rel, i, 'const', re.sub(re.escape(a) + r'\b', b, l, count=1)))
        m = re.match(r'^(\s*(?:\} else )?if )(!?)([^{]*) \{\s*$', l)
        if m and ' let ' not in l:
            cond = m.group(3)
            if m.group(2):
                muts.append((rel, i, 'neg', f'{m.group(1)}{cond} {{'))
            elif '&&' not in cond and '||' not in cond:
                muts.append((rel, i, 'neg', f'{m.group(1)}!({cond}) {{'))
        if CALL_STMT.match(l) and 'return' not in l:
            muts.append((rel, i, 'delcall', ''))
            # swap with the next statement line if that is a call / assignment statement too
            if i + 1 < end and (CALL_STMT.match(lines[i + 1]) or ASSIGN_STMT.match(lines[i + 1])):
                muts.append((rel, i, 'swap', None))
        elif ASSIGN_STMT.match(l) and 'let ' not in l:
            muts.append((rel, i, 'delassign', ''))
            if i + 1 < end and CALL_STMT.match(lines[i + 1]):
                muts.append((rel, i, 'swap', None))
        if '/syntax/' in rel or 'state_machine' in rel:
            m = DSL_ARM.search(l)
            if m and '-->' in l or (m and ';' in m.group(1)):
                acts = [a.strip() for a in m.group(1).split(';')]
                for k, a in enumerate(acts):
                    if not a or a.startswith('-->') or a.startswith('reconsume'):
                        continue
                    rest = acts[:k] + acts[k + 1:]
                    newl = l[:m.start(1)] + ' ' + '; '.join(x for x in rest if x) + ' ' + l[m.end(1):]
                    muts.append((rel, i, 'dsl', newl))
    return muts

def apply_mut(root, mut):
    rel, i, op, newl = mut
    p = f'{root}/{rel}'
    lines = open(p).read().split('\n')
    if op == 'swap':
        lines[i], lines[i + 1] = lines[i + 1], lines[i]
    else:
        lines[i] = newl
    open(p, 'w').write('\n'.join(lines))

# ---------------------------------------------------------------- workers
lock = threading.Lock()
def sh(cmd, cwd, env=None, timeout=900):
    e = dict(os.environ); e['CARGO_NET_OFFLINE'] = 'true'
    if env: e.update(env)
    try:
        r = subprocess.run(cmd, cwd=cwd, env=e, shell=True, stdout=subprocess.PIPE, stderr=subprocess.STDOUT, timeout=timeout)
        return r.returncode, r.stdout.decode('utf-8', 'replace')
    except subprocess.TimeoutExpired as ex:
        return 124, (ex.stdout or b'').decode('utf-8', 'replace') + '\nTIMEOUT'

def setup_worker(k):
    d = f'{AM}/{k}'
    if not os.path.isdir(f'{d}/repo'):
        os.makedirs(d, exist_ok=True)
        with lock:
            sh(f'git -C {REPO} worktree prune; git -C {REPO} worktree add -q --detach {d}/repo HEAD', '/')
    else:
        sh(f'git checkout -q --detach $(git -C {REPO} rev-parse HEAD) && git checkout -q -- .', f'{d}/repo')
    shutil.rmtree(f'{d}/harness', ignore_errors=True)
    shutil.copytree('/verif/harness', f'{d}/harness', ignore=shutil.ignore_patterns('target'))
    t = open(f'{d}/harness/Cargo.toml').read().replace('path = "/repo"', f'path = "{d}/repo"').replace('path = "/repo/c-api"', f'path = "{d}/repo/c-api"')
    open(f'{d}/harness/Cargo.toml', 'w').write(t)
    os.makedirs(f'{d}/verif', exist_ok=True)
    shutil.copy('/verif/known_findings.json', f'{d}/verif/')
    return d

def run_mut(k, d, idx, mut):
    rel, i, op, newl = mut
    rec = {'idx': idx, 'file': rel, 'line': i + 1, 'op': op}
    sh('git checkout -q -- .', f'{d}/repo')
    apply_mut(f'{d}/repo', mut)
    rc, diff = sh('git diff', f'{d}/repo')
    rec['diff'] = diff
    if not diff.strip():
        rec['verdict'] = 'noop'
        return rec
    tdir = f'{d}/target-repo'
    manifest = 'c-api/Cargo.toml' if rel.startswith('c-api/') else 'Cargo.toml'
    if not rel.startswith('c-api/'):
        # (c-api is not part of the pinned suite's workspace and cannot be built stand-alone offline: it is compiled by the harness build below)
        rc, o = sh('cargo test --offline --lib --tests 2>&1 | tail -60', f'{d}/repo', {'CARGO_TARGET_DIR': tdir}, 600)
        if 'test result: FAILED' in o or 'panicked' in o or 'TIMEOUT' in o:
            rec['verdict'] = 'killed-by-tests'
            m = re.findall(r'^    (\S+::\S+)$', o, re.M)
            rec['detail'] = m[:3] if m else o[-300:]
            return rec
        if 'could not compile' in o or re.search(r'^error(\[|:)', o, re.M) or 'test result: ok' not in o:
            rec['verdict'] = 'stillborn'; rec['detail'] = o[-600:]
            return rec
    return survivor_checks(d, rel, rec)

def survivor_checks(d, rel, rec):
    # survivor: harness
    rc, o = sh('cargo build --offline 2>&1 | tail -30', f'{d}/harness', {'CARGO_TARGET_DIR': f'{d}/target-h'}, 1200)
    if rc != 0 or 'could not compile' in o:
        rec['verdict'] = 'stillborn' if rel.startswith('c-api/') else 'harness-build-failed'; rec['detail'] = o[-600:]
        return rec
    ids = props_for(rel)
    rec['checks_run'] = []
    for pid in ids:
        t0 = time.time()
        extra = '--shards 4' if pid not in ('C15', 'C17', 'C18') else ''
        env = {'VERIF_DIR': f'{d}/verif', 'VERIF_SCALE': '0.5' if pid in ('C15', 'C17', 'C18', 'C10') else '1.0'}
        rc, o = sh(f'{d}/target-h/debug/vcheck {pid} --tier quick --seed 1 --flavour dbg --no-min {extra} --evidence {d}/verif/ev.json', f'{d}/harness', env, 1500)
        rec['checks_run'].append([pid, round(time.time() - t0)])
        m = re.search(r'^VIOLATION property=(\S+).*$', o, re.M)
        if m:
            rec['verdict'] = 'detected'; rec['by'] = pid
            km = re.search(r'^--- \S+ violated: key=(\S+)', o, re.M)
            rec['key'] = km.group(1) if km else ''
            return rec
        if rc not in (0, 1):
            # harness error / sanitizer-style death of the checker: record, keep going
            rec.setdefault('odd', []).append([pid, rc, o[-200:]])
            if rc in (134, 139, -6, -11):
                rec['verdict'] = 'detected'; rec['by'] = pid; rec['key'] = f'checker-died-rc{rc}'
                return rec
    rec['verdict'] = 'undetected'
    return rec

def retest_main(src):
    want = None
    if '--idx' in ARGS:
        want = {int(x) for x in ARGS[ARGS.index('--idx') + 1].split(',')}
    recs = [json.loads(l) for l in open(src)]
    recs = [r for r in recs if r['verdict'] == 'undetected' and (want is None or r['idx'] in want)]
    print(f'[automut] retesting {len(recs)} undetected survivors on {W} workers', flush=True)
    q = list(recs)
    qlock = threading.Lock()
    def worker(k):
        d = setup_worker(k)
        while True:
            with qlock:
                if not q:
                    break
                r = q.pop(0)
            sh('git checkout -q -- .', f'{d}/repo')
            pf = f'{d}/retest.diff'
            open(pf, 'w').write(r['diff'])
            rc, o = sh(f'git apply {pf}', f'{d}/repo')
            rec = {'idx': r['idx'], 'file': r['file'], 'line': r['line'], 'op': r['op'], 'diff': r['diff'], 'retest': True}
            if rc != 0:
                rec['verdict'] = 'does-not-apply'
            else:
                rec = survivor_checks(d, r['file'], rec)
            with lock:
                with open(out_path, 'a') as fo:
                    fo.write(json.dumps(rec) + '\n')
                print(f"[automut] retest #{rec['idx']} {rec['file']}:{rec['line']} {rec['op']} -> {rec['verdict']} {rec.get('by', '')} {rec.get('key', '')}", flush=True)
        sh('git checkout -q -- .', f'{d}/repo')
    ths = [threading.Thread(target=worker, args=(k,)) for k in range(W)]
    for t in ths: t.start()
    for t in ths: t.join()
    print('[automut] retest done', flush=True)

def main():
    if '--retest' in ARGS:
        return retest_main(ARGS[ARGS.index('--retest') + 1])
    rng = random.Random(SEED)
    allm = []
    for f in candidate_files():
        allm += gen_for_file(f)
    if ONLY_OPS:
        allm = [m for m in allm if m[2] in ONLY_OPS.split(',')]
    # skip what an earlier campaign already did
    done = set()
    if os.path.exists(out_path):
        for l in open(out_path):
            try:
                r = json.loads(l); done.add((r['file'], r['line'], r['op'], r.get('diff', '')))
            except Exception:
                pass
    if N == 0:
        import collections
        print(len(allm), collections.Counter(m[2] for m in allm)); print(collections.Counter(m[0] for m in allm).most_common(60))
        for m in rng.sample(allm, 25): print(m)
        return
    allm = [m for m in allm if (m[0], m[1] + 1, m[2]) not in {(d[0], d[1], d[2]) for d in done}]
    rng.shuffle(allm)
    # at most 2 mutants per line, spread over files: round-robin by file
    byfile = {}
    for m in allm:
        byfile.setdefault(m[0], []).append(m)
    picked = []
    while len(picked) < N and any(byfile.values()):
        for f in sorted(byfile, key=lambda x: rng.random()):
            if byfile[f] and len(picked) < N:
                picked.append(byfile[f].pop())
    print(f'[automut] {len(allm)} candidate mutants in {len(byfile)} files; running {len(picked)} on {W} workers', flush=True)
    q = list(enumerate(picked))
    qlock = threading.Lock()
    def worker(k):
        d = setup_worker(k)
        while True:
            with qlock:
                if not q:
                    break
                idx, mut = q.pop(0)
            try:
                rec = run_mut(k, d, idx, mut)
            except Exception as ex:
                rec = {'idx': idx, 'file': mut[0], 'line': mut[1] + 1, 'op': mut[2], 'verdict': 'tool-error', 'detail': repr(ex)}
            with lock:
                with open(out_path, 'a') as fo:
                    fo.write(json.dumps(rec) + '\n')
                print(f"[automut] #{idx} {rec['file']}:{rec['line']} {rec['op']} -> {rec['verdict']} {rec.get('by', '')} {rec.get('key', '')}", flush=True)
        sh('git checkout -q -- .', f'{d}/repo')
    ths = [threading.Thread(target=worker, args=(k,)) for k in range(W)]
    for t in ths: t.start()
    for t in ths: t.join()
    if '--keep' not in ARGS:
        for k in range(W):
            sh(f'git -C {REPO} worktree remove --force {AM}/{k}/repo', '/')
        shutil.rmtree(AM, ignore_errors=True)
        sh(f'git -C {REPO} worktree prune', '/')
    print('[automut] done', flush=True)

main()
