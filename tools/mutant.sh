#!/bin/bash
# usage: tools/mutant.sh <patch.diff> <Cxx> [<Cxx> ...]   — applies a seeded change to /repo, runs the quick checks, undoes it.
# prints one line per check: DETECTED / MISSED (rc)
set -u
patch="$1"; shift
cd /repo || exit 2
if ! git diff --quiet; then echo "/repo has uncommitted changes; refusing"; exit 2; fi
if ! git apply --check "$patch" 2>/dev/null; then echo "patch does not apply: $patch"; exit 2; fi
git apply "$patch"
cd /verif
for id in "$@"; do
  out=$(VERIF_SEED=${VERIF_SEED:-1} ./check "$id" --tier ${TIER:-quick} 2>&1); rc=$?
  if echo "$out" | grep -q "^VIOLATION property=$id"; then
     echo "$id DETECTED rc=$rc $(echo "$out" | grep -m1 '^--- ' )"
     echo "$out" | grep -A6 -m1 '^--- ' | head -8 | sed 's/^/      /' | cut -c1-300
  else
     echo "$id MISSED rc=$rc"; echo "$out" | tail -5 | sed 's/^/      /' | cut -c1-300
  fi
done
git -C /repo checkout -- . 
