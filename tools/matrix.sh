#!/bin/bash
# usage: tools/matrix.sh <out.tsv> [ids...]  — which check (dbg flavour, quick tier) catches which seeded change.
# Works on a scratch worktree + scratch copy of the harness (never touches /repo or /verif/evidence).
set -u
out="$1"; shift
ids="${*:-C01 C02 C03 C04 C05 C06 C07 C08 C09 C10 C11 C12 C13 C14 C15 C16 C17 C18}"
MX=${MX:-/tmp/mx}
rm -rf $MX; mkdir -p $MX/verif
git -C /repo worktree prune
git -C /repo worktree add -q --detach $MX/repo HEAD || exit 2
cp -r /verif/harness $MX/harness; rm -rf $MX/harness/target
sed -i "s|path = \"/repo\"|path = \"$MX/repo\"|; s|path = \"/repo/c-api\"|path = \"$MX/repo/c-api\"|" $MX/harness/Cargo.toml
cp /verif/known_findings.json $MX/verif/
export CARGO_NET_OFFLINE=true CARGO_TARGET_DIR=$MX/target VERIF_DIR=$MX/verif VERIF_SCALE=${VERIF_SCALE:-0.5}
: > "$out"
for d in ${SEEDED_DIRS:-/verif/seeded/*/}; do
  m=$(basename $d)
  ( cd $MX/repo && git checkout -q -- . && git apply "$d/patch.diff" ) || { echo -e "$m\tAPPLY-FAILED" >> "$out"; continue; }
  ( cd $MX/harness && cargo build --offline >/dev/null 2>&1 ) || { echo -e "$m\tBUILD-FAILED" >> "$out"; continue; }
  line="$m"
  for id in $ids; do
    o=$(cd $MX/harness && timeout 600 $MX/target/debug/vcheck $id --tier quick --seed 1 --flavour dbg --no-min --evidence $MX/verif/ev.json 2>&1); rc=$?
    if echo "$o" | grep -q "^VIOLATION property=$id"; then line="$line\t$id"; fi
  done
  echo -e "$line" >> "$out"
done
cd /; git -C /repo worktree remove --force $MX/repo; rm -rf $MX
echo DONE >> "$out"
